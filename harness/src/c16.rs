//! C16: the Rescue hashers match a reference Rescue-Prime implementation.
//! Request lines start with the dispatch key `c16` (see lean/Wf/Drv/Rescue.lean):
//!
//!   c16 perm  <hasher> <ref|code> <v0,..>      real `apply_permutation` on `BaseElement::new(v)`, answer =
//!                                              canonical values of the whole state (f64 hashers)
//!   c16 permw <hasher> <w0,..>                 real `apply_permutation` on `from_mont(w)`, answer = `inner()`
//!   c16 roundw <hasher> <round> <w0,..>        real `apply_round`, stored words in and out
//!   c16 dg    <hasher> <ref|code> <item>       real entry point (hash / hash_elements / merge / merge_many /
//!                                              merge_with_int), answer = digest `a:b:c:d`
//!
//! Every case is sent twice to the Lean driver (reference round function and translated code); the
//! oracle is HERE: a schoolbook Rescue-Prime permutation over u128 arithmetic mod p (power maps by
//! square-and-multiply, plain matrix-vector product, the documented sponge / Jive rules), using the
//! constant tables of the crate (public associated constants of Rp64_256 / RpJive64_256; the private
//! tables of rp62_248/mod.rs are parsed from the source text that is compiled into this binary).
//! Rp62_248's permutation is private: it is reached through `hash_elements` of one full rate block.
use winter_crypto::hashers::{Rp64_256, RpJive64_256};
use winter_math::{fields::f64::BaseElement as E64, FieldElement};

use crate::c10::{P62, P64};
use crate::c15::{eval_rescue, layout, Item, Layout, Rk};
use crate::out::Out;
use crate::rng::Rng;

// ---------------------------------------------------------------------------------------------
// the oracle: schoolbook Rescue-Prime over u128
// ---------------------------------------------------------------------------------------------
const ROUNDS: usize = 7;
/// published exponents (eprint 2020/1143, algorithm 6): alpha and alpha^-1 mod (p - 1)
const ALPHA64: u128 = 7;
const INV_ALPHA64: u128 = 10540996611094048183;
const ALPHA62: u128 = 3;
const INV_ALPHA62: u128 = 3074416663688030891;

pub struct Ref {
    p: u128,
    alpha: u128,
    inv_alpha: u128,
    mds: Vec<Vec<u128>>,
    ark1: Vec<Vec<u128>>,
    ark2: Vec<Vec<u128>>,
}

fn mulmod(a: u128, b: u128, p: u128) -> u128 { (a % p) * (b % p) % p }   // p < 2^64: no overflow

fn powmod(mut b: u128, mut e: u128, p: u128) -> u128 {
    let mut r = 1u128;
    b %= p;
    while e > 0 {
        if e & 1 == 1 { r = mulmod(r, b, p); }
        b = mulmod(b, b, p);
        e >>= 1;
    }
    r
}

impl Ref {
    fn matvec(&self, v: &[u128]) -> Vec<u128> {
        self.mds.iter().map(|row| row.iter().zip(v).fold(0u128, |acc, (m, x)| (acc + mulmod(*m, *x, self.p)) % self.p)).collect()
    }
    pub fn round(&self, st: &[u128], r: usize) -> Vec<u128> {
        let s: Vec<u128> = st.iter().map(|x| powmod(*x, self.alpha, self.p)).collect();
        let s = self.matvec(&s);
        let s: Vec<u128> = s.iter().zip(&self.ark1[r]).map(|(x, k)| (x + k) % self.p).collect();
        let s: Vec<u128> = s.iter().map(|x| powmod(*x, self.inv_alpha, self.p)).collect();
        let s = self.matvec(&s);
        s.iter().zip(&self.ark2[r]).map(|(x, k)| (x + k) % self.p).collect()
    }
    pub fn perm(&self, st: &[u128]) -> Vec<u128> {
        let mut s: Vec<u128> = st.iter().map(|x| x % self.p).collect();
        for r in 0..ROUNDS { s = self.round(&s, r); }
        s
    }
}

fn table64<const W: usize, const H: usize>(t: &[[E64; W]; H]) -> Vec<Vec<u128>> {
    t.iter().map(|r| r.iter().map(|e| e.as_int() as u128).collect()).collect()
}

/// `const NAME: [[BaseElement; ..]; ..] = [ [BaseElement::new(lit), ..], .. ];` from source text
fn parse_table(src: &str, name: &str, width: usize) -> Vec<Vec<u128>> {
    let start = src.find(&format!("const {name}:")).unwrap_or_else(|| panic!("table {name} not found"));
    let body = &src[start..];
    let end = body.find("\n];").expect("end of table");
    let mut vals = Vec::new();
    let mut rest = &body[..end];
    while let Some(i) = rest.find("BaseElement::new(") {
        rest = &rest[i + "BaseElement::new(".len()..];
        let j = rest.find(')').expect(")");
        vals.push(rest[..j].trim().replace('_', "").parse::<u128>().expect("literal"));
        rest = &rest[j..];
    }
    assert!(vals.len() % width == 0 && !vals.is_empty());
    vals.chunks(width).map(|c| c.to_vec()).collect()
}

const RP62_SRC: &str = include_str!("/repo/crypto/src/hash/rescue/rp62_248/mod.rs");

pub fn reference(k: Rk) -> Ref {
    match k {
        Rk::Rp64 => Ref { p: P64, alpha: ALPHA64, inv_alpha: INV_ALPHA64, mds: table64(&Rp64_256::MDS),
                          ark1: table64(&Rp64_256::ARK1), ark2: table64(&Rp64_256::ARK2) },
        Rk::Jive => Ref { p: P64, alpha: ALPHA64, inv_alpha: INV_ALPHA64, mds: table64(&RpJive64_256::MDS),
                          ark1: table64(&RpJive64_256::ARK1), ark2: table64(&RpJive64_256::ARK2) },
        Rk::Rp62 => Ref { p: P62, alpha: ALPHA62, inv_alpha: INV_ALPHA62, mds: parse_table(RP62_SRC, "MDS", 12),
                          ark1: parse_table(RP62_SRC, "ARK1", 12), ark2: parse_table(RP62_SRC, "ARK2", 12) },
    }
}

fn rate(k: Rk) -> usize { if k == Rk::Jive { 4 } else { 8 } }

/// sponge / Jive compression over a layout with the schoolbook permutation
fn oracle_digest(k: Rk, rf: &Ref, l: &Layout, compress: bool) -> Vec<u128> {
    let p = rf.p;
    let r = rate(k);
    let mut cap: Vec<u128> = l.cap.iter().map(|x| *x as u128 % p).collect();
    let mut rt: Vec<u128> = vec![0; r];
    let mut init = (cap.clone(), rt.clone());
    for (pad, b) in &l.ops {
        for (i, v) in b.iter().enumerate() { rt[i] = (rt[i] + *v as u128) % p; }
        if *pad {
            rt[b.len()] = 1;
            for j in b.len() + 1..r { rt[j] = 0; }
        }
        init = (cap.clone(), rt.clone());
        // Rp62_248: state = rate ++ capacity; the others: capacity ++ rate
        let full: Vec<u128> = if k == Rk::Rp62 { [rt.as_slice(), cap.as_slice()].concat() } else { [cap.as_slice(), rt.as_slice()].concat() };
        let o = rf.perm(&full);
        if k == Rk::Rp62 { rt = o[..r].to_vec(); cap = o[r..].to_vec(); } else { cap = o[..4].to_vec(); rt = o[4..].to_vec(); }
    }
    if compress {
        (0..4).map(|i| (init.0[i] + init.1[i] + cap[i] + rt[i]) % p).collect()
    } else {
        rt[..4].to_vec()
    }
}

// ---------------------------------------------------------------------------------------------
// rendering
// ---------------------------------------------------------------------------------------------
fn join<T: ToString>(xs: &[T], sep: &str) -> String {
    if xs.is_empty() { "-".into() } else { xs.iter().map(|x| x.to_string()).collect::<Vec<_>>().join(sep) }
}

/// one case, sent to the model twice (`ref` / `code`)
fn both(out: &mut Out, head: &str, hn: &str, tail: &str, oracle: &str, f: impl FnOnce() -> String) {
    let mut cached: Option<String> = None;
    out.case(&format!("c16 {head} {hn} ref {tail}"), oracle, || { let s = f(); cached = Some(s.clone()); s });
    let s = cached.unwrap_or_else(|| "abort".to_string());
    out.case(&format!("c16 {head} {hn} code {tail}"), oracle, || s);
}

// ---------------------------------------------------------------------------------------------
// generators
// ---------------------------------------------------------------------------------------------
/// a u64 biased to the representation boundaries of f64 / f62 elements
fn biased_u64(rng: &mut Rng, p: u128) -> u64 {
    let p = p as u64;
    match rng.below(12) {
        0 => 0,
        1 => 1,
        2 => p - 1,
        3 => p - 1 - rng.below(3),
        4 => { let k = rng.below(32) as u32; (1u64 << 32).wrapping_mul(1 << k).wrapping_add(rng.below(3)).wrapping_sub(1) },   // 2^(32+k) - 1 .. + 1
        5 => (rng.below(1 << 20) << 32) | if rng.chance(1, 2) { 0xffff_ffff } else { rng.below(3) },                     // 2^32 bands
        6 => 0xffff_ffff - rng.below(2),
        7 => (1u64 << 32) + rng.below(2),
        8 => p.wrapping_add(rng.below(3)),                // >= p: `new` reduces
        9 => u64::MAX - rng.below(2),
        _ => rng.next(),
    }
}

fn biased_state(rng: &mut Rng, p: u128, w: usize) -> (Vec<u64>, &'static str) {
    match rng.below(8) {
        0 => (vec![0; w], "zero"),
        1 => (vec![(p - 1) as u64; w], "all_p-1"),
        2 => (vec![1; w], "all_one"),
        3 => ((0..w).map(|_| (rng.below(4) << 32) | rng.below(2) * 0xffff_ffff).collect(), "2^32_band"),
        4 => ((0..w).map(|_| rng.next()).collect(), "random"),
        _ => ((0..w).map(|_| biased_u64(rng, p)).collect(), "mixed"),
    }
}

/// stored word < M biased to the limb split of `mds_multiply` (high limb 2^32 - 1, low limb 0 / 2^32 - 1)
fn biased_word(rng: &mut Rng) -> u64 {
    const M: u64 = 0xffff_ffff_0000_0001;
    let w = match rng.below(10) {
        0 => 0,
        1 => 1,
        2 => M - 1,
        3 => 0xffff_ffff_0000_0000 - rng.below(3),
        4 => 0xffff_fffe_ffff_ffff - rng.below(2),
        5 => (rng.below(1 << 32) << 32) | 0xffff_ffff,
        6 => rng.below(1 << 32) << 32,
        7 => rng.below(1 << 32),
        _ => rng.next(),
    };
    w % M
}

fn to_mont(v: u128) -> u64 { ((v << 64) % P64) as u64 }                 // v * 2^64 mod p (v < p)
fn from_mont_val(w: u64) -> u128 { E64::from_mont(w).as_int() as u128 }

/// a state (stored words) whose FIRST `mds_multiply` of `apply_round` emits a non-canonical word in
/// lane 0: after the s-box the limbs satisfy  sum m_j*hi_j = 2^32 - 1  and  0 < sum m_j*lo_j < 2^32.
fn noncanonical_mds_state(rng: &mut Rng, first_row: &[u64]) -> Vec<u64> {
    let w = first_row.len();
    let (m0, m1) = (first_row[0], first_row[1]);
    // m0*a + m1*b = t with a, b >= 0
    let solve = |t: u64| -> Option<(u64, u64)> {
        (0..m0).find(|b| t >= m1 * b && (t - m1 * b) % m0 == 0).map(|b| ((t - m1 * b) / m0, b))
    };
    loop {
        let mut hi = vec![0u64; w];
        let mut lo = vec![0u64; w];
        for j in 2..w {
            if rng.chance(1, 2) { hi[j] = rng.below(1 << 20); }
            if rng.chance(1, 2) { lo[j] = rng.below(1 << 20); }
        }
        let used_hi: u64 = (2..w).map(|j| first_row[j] * hi[j]).sum();
        let used_lo: u64 = (2..w).map(|j| first_row[j] * lo[j]).sum();
        // sum m_j*hi_j = 2^32 - 1 exactly;  1 <= sum m_j*lo_j <= 2^32 - 1
        let lo_total = if rng.chance(1, 3) { 0xffff_ffff } else { used_lo + 1 + rng.below(0xffff_ffff - used_lo - 1) };
        if let (Some((a, b)), Some((c, d))) = (solve(0xffff_ffff - used_hi), solve(lo_total - used_lo)) {
            hi[0] = a; hi[1] = b; lo[0] = c; lo[1] = d;
            if hi.iter().chain(lo.iter()).any(|x| *x > 0xffff_ffff) { continue; }
            let words: Vec<u64> = (0..w).map(|j| (hi[j] << 32) | lo[j]).collect();
            if words.iter().all(|x| *x < 0xffff_ffff_0000_0001) {
                // pre-image under the s-box: x^(1/7); exp7 of a canonical element is canonical, so the
                // stored word after `apply_sbox` is exactly `words[j]`
                return words.iter().map(|x| {
                    let e = E64::from_mont(*x).exp(INV_ALPHA64 as u64);
                    assert!(e.exp7().inner() == *x);
                    e.inner()
                }).collect();
            }
        }
    }
}

fn arr<const N: usize>(ws: &[u64], f: impl Fn(u64) -> E64) -> [E64; N] {
    let mut a = [E64::ZERO; N];
    for i in 0..N { a[i] = f(ws[i]); }
    a
}

// ---------------------------------------------------------------------------------------------
// cases
// ---------------------------------------------------------------------------------------------
fn perm_case(out: &mut Out, k: Rk, rf: &Ref, st: &[u64]) {
    let want = rf.perm(&st.iter().map(|x| *x as u128).collect::<Vec<_>>());
    both(out, "perm", k.name(), &join(st, ","), &join(&want, ","), || {
        let o: Vec<u64> = if k == Rk::Rp64 {
            let mut a: [E64; 12] = arr(st, E64::new);
            Rp64_256::apply_permutation(&mut a);
            a.iter().map(|e| e.as_int()).collect()
        } else {
            let mut a: [E64; 8] = arr(st, E64::new);
            RpJive64_256::apply_permutation(&mut a);
            a.iter().map(|e| e.as_int()).collect()
        };
        join(&o, ",")
    });
}

/// stored words in, stored words out; `round = None`: the whole permutation
fn words_case(out: &mut Out, k: Rk, rf: &Ref, ws: &[u64], round: Option<usize>) {
    let vals: Vec<u128> = ws.iter().map(|w| from_mont_val(*w)).collect();
    let want: Vec<u64> = match round { Some(r) => rf.round(&vals, r), None => rf.perm(&vals) }.iter().map(|v| to_mont(*v)).collect();
    let req = match round {
        Some(r) => format!("c16 roundw {} {r} {}", k.name(), join(ws, ",")),
        None => format!("c16 permw {} {}", k.name(), join(ws, ",")),
    };
    out.case(&req, &join(&want, ","), || {
        let o: Vec<u64> = if k == Rk::Rp64 {
            let mut a: [E64; 12] = arr(ws, E64::from_mont);
            match round { Some(r) => Rp64_256::apply_round(&mut a, r), None => Rp64_256::apply_permutation(&mut a) }
            a.iter().map(|e| e.inner()).collect()
        } else {
            let mut a: [E64; 8] = arr(ws, E64::from_mont);
            match round { Some(r) => RpJive64_256::apply_round(&mut a, r), None => RpJive64_256::apply_permutation(&mut a) }
            a.iter().map(|e| e.inner()).collect()
        };
        join(&o, ",")
    });
}

fn dg_case(out: &mut Out, k: Rk, rf: &Ref, item: &Item) {
    let compress = k == Rk::Jive && matches!(item, Item::RMerge(..) | Item::RMwi(..));
    let want = oracle_digest(k, rf, &layout(k, item), compress);
    both(out, "dg", k.name(), &item.show(), &join(&want, ":"), || join(&eval_rescue(k, item), ":"));
}

fn rand_digest(rng: &mut Rng, p: u128) -> [u64; 4] {
    let mut d = [0u64; 4];
    match rng.below(6) {
        0 => {},
        1 => d = [(p - 1) as u64; 4],
        _ => for x in d.iter_mut() { *x = (biased_u64(rng, p) as u128 % p) as u64; },
    }
    d
}

/// family `c16`
pub fn run(rng: &mut Rng, out: &mut Out, n: usize) {
    for k in [Rk::Rp64, Rk::Jive, Rk::Rp62] {
        let rf = reference(k);
        let p = rf.p;
        let r = rate(k);

        // --- the permutation ---------------------------------------------------------------------
        if k != Rk::Rp62 {
            let w = if k == Rk::Rp64 { 12 } else { 8 };
            for _ in 0..(10 + n) {
                let (st, class) = biased_state(rng, p, w);
                out.count(&format!("perm:{class}"));
                perm_case(out, k, &rf, &st);
            }
            for _ in 0..(6 + n / 2) {
                out.count("permw:biased_words");
                let ws: Vec<u64> = (0..w).map(|_| biased_word(rng)).collect();
                words_case(out, k, &rf, &ws, None);
                words_case(out, k, &rf, &ws, Some(rng.below(7) as usize));
            }
            let first_row: Vec<u64> = rf.mds[0].iter().map(|x| *x as u64).collect();
            for i in 0..(4 + n / 4) {
                out.count("roundw:noncanonical_mds_output");
                let ws = noncanonical_mds_state(rng, &first_row);
                words_case(out, k, &rf, &ws, Some(i % 7));
                words_case(out, k, &rf, &ws, None);
            }
        } else {
            // Rp62_248: the permutation is private; one full rate block through hash_elements:
            // digest = first four words of perm(e0..e7, 0, 0, 0, 8)
            for _ in 0..(10 + n) {
                let (st, class) = biased_state(rng, p, 8);
                out.count(&format!("perm62:{class}"));
                dg_case(out, k, &rf, &Item::RElems(st));
            }
        }

        // --- hash(bytes): every length 0..=120 (all residues mod 7 and mod 7*rate), the lengths of the
        //     fix af8c1d8 (> 56 bytes), random longer strings ------------------------------------------
        let mut lens: Vec<usize> = (0..=120).collect();
        lens.extend([57, 63, 64, 100, 112, 113, 167, 168, 169, 224, 225]);
        for _ in 0..n / 2 { lens.push(rng.below(420) as usize); }
        for len in lens {
            out.count(&format!("hash:len%7={}", len % 7));
            let b = match rng.below(5) { 0 => vec![0u8; len], 1 => vec![0xffu8; len], 2 => vec![1u8; len], _ => rng.bytes(len) };
            dg_case(out, k, &rf, &Item::Hash(b));
        }

        // --- hash_elements: 0..3 rates (+1), biased elements --------------------------------------
        for len in 0..=(3 * r + 1) {
            out.count("hash_elements");
            let es: Vec<u64> = (0..len).map(|_| biased_u64(rng, p)).collect();
            dg_case(out, k, &rf, &Item::RElems(es));
        }
        for _ in 0..n / 2 {
            out.count("hash_elements");
            let len = rng.below(4 * r as u64 + 2) as usize;
            let es: Vec<u64> = (0..len).map(|_| biased_u64(rng, p)).collect();
            dg_case(out, k, &rf, &Item::RElems(es));
        }

        // --- merge / merge_many -------------------------------------------------------------------
        for i in 0..(8 + n / 2) {
            out.count("merge");
            let (a, b) = (rand_digest(rng, p), rand_digest(rng, p));
            dg_case(out, k, &rf, &Item::RMerge(a, b));
            out.count("merge_many");
            let cnt = if i <= 6 { i } else { rng.below(9) as usize };
            let ds: Vec<[u64; 4]> = (0..cnt).map(|_| rand_digest(rng, p)).collect();
            dg_case(out, k, &rf, &Item::RMm(ds));
        }

        // --- merge_with_int: boundaries, x and x + p ----------------------------------------------
        let p64 = p as u64;
        let mut ints: Vec<u64> = vec![0, 1, 2, 0xffff_ffff, 1 << 32, (1 << 32) + 1, 1 << 63, p64 - 1, p64, p64 + 1, u64::MAX - 1, u64::MAX];
        if k == Rk::Rp62 { ints.extend([2 * p64 - 1, 2 * p64, 2 * p64 + 1, 3 * p64, 3 * p64 + 5]); }
        for _ in 0..(4 + n / 4) {
            let x = rng.below(u64::MAX - p64);
            ints.push(x);
            ints.push(x + p64);
            ints.push(biased_u64(rng, p));
        }
        for v in ints {
            out.count(if v < p64 { "merge_with_int:lt_p" } else { "merge_with_int:ge_p" });
            let seed = rand_digest(rng, p);
            dg_case(out, k, &rf, &Item::RMwi(seed, v));
        }
    }
}
