//! C15 (byte hashers follow their byte layout) and C17 (padding separates inputs of different
//! length).  Request lines all start with the dispatch key `c15` (see lean/Wf/Drv/Hashers.lean).
//!
//!   c15 h <byte hasher> <item> [route]
//!        answer  `<preimage hex> <N> <verdict>`: the preimage is computed HERE from the documented
//!        layout (independently of winter-crypto and of the Lean model), the verdict is `ok` iff the
//!        real hasher's digest equals the `blake3` / `sha3` crate applied to that preimage (first N
//!        bytes).  model = same preimage + ` ok`; oracle `~ ok$`.
//!   c15 l <rp64_256|rpjive64_256> <item>
//!        answer  `<layout> <verdict>`: absorption layout computed here from the documentation; the
//!        verdict is `ok` iff the real hasher's digest equals the sponge over that layout evaluated
//!        with the hasher's own public `apply_permutation`.
//!   c15 cls <hasher> <item> ...
//!        answer  equality classes of the REAL digests of the items; model = classes of the layouts;
//!        oracle = all distinct (`0 1 2 ..`) for the structured families of C17, `0 0 ..` for the
//!        documented coincidences (merge = merge_many of two, ...).
use winter_crypto::{
    hashers::{Blake3_192, Blake3_256, Rp62_248, Rp64_256, RpJive64_256, Sha3_256},
    Digest, ElementHasher, Hasher,
};
use winter_math::{
    fields::{f128, f62, f64, CubeExtension, QuadExtension},
    FieldElement, StarkField,
};
use winter_utils::Deserializable;

use crate::c10::{Fld, P128, P62, P64};
use crate::out::Out;
use crate::rng::{hex, Rng};

pub const BYTE_HASHERS: [&str; 3] = ["blake3_256", "blake3_192", "sha3_256"];
const FIELDS: [(&str, u128, usize, usize); 8] = [
    ("f64", P64, 8, 1), ("f64x2", P64, 8, 2), ("f64x3", P64, 8, 3),
    ("f62", P62, 8, 1), ("f62x2", P62, 8, 2), ("f62x3", P62, 8, 3),
    ("f128", P128, 16, 1), ("f128x2", P128, 16, 2),
];

// ---------------------------------------------------------------------------------------------
// items
// ---------------------------------------------------------------------------------------------
/// digest: bytes (byte hashers) or four canonical values (Rescue)
#[derive(Clone)]
pub enum Item {
    Hash(Vec<u8>),
    Merge(Vec<u8>, Vec<u8>),
    Mm(Vec<Vec<u8>>),
    Mwi(Vec<u8>, u64),
    /// field name, elements as coefficient lists, representation route
    Elems(&'static str, Vec<Vec<u128>>, usize),
    RMerge([u64; 4], [u64; 4]),
    RMm(Vec<[u64; 4]>),
    RMwi([u64; 4], u64),
    RElems(Vec<u64>),
}

fn join<T: ToString>(xs: &[T], sep: &str) -> String {
    if xs.is_empty() { "-".into() } else { xs.iter().map(|x| x.to_string()).collect::<Vec<_>>().join(sep) }
}
fn elems_str(es: &[Vec<u128>]) -> String {
    if es.is_empty() { "-".into() } else { es.iter().map(|e| join(e, ":")).collect::<Vec<_>>().join(",") }
}
fn rd(d: &[u64; 4]) -> String { join(d, ":") }

impl Item {
    pub fn show(&self) -> String {
        match self {
            Item::Hash(b) => format!("hash={}", hex(b)),
            Item::Merge(a, b) => format!("merge={}/{}", hex(a), hex(b)),
            Item::Mm(ds) => format!("mm={}", if ds.is_empty() { "-".into() } else { ds.iter().map(|d| hex(d)).collect::<Vec<_>>().join(",") }),
            Item::Mwi(d, v) => format!("mwi={}/{v}", hex(d)),
            Item::Elems(f, es, _) => format!("elems={f}/{}", elems_str(es)),
            Item::RMerge(a, b) => format!("merge={}/{}", rd(a), rd(b)),
            Item::RMm(ds) => format!("mm={}", if ds.is_empty() { "-".into() } else { ds.iter().map(rd).collect::<Vec<_>>().join(",") }),
            Item::RMwi(d, v) => format!("mwi={}/{v}", rd(d)),
            Item::RElems(es) => format!("elems={}", join(es, ",")),
        }
    }
}

// ---------------------------------------------------------------------------------------------
// the documented byte layout, computed independently of the implementation
// ---------------------------------------------------------------------------------------------
fn field_info(name: &str) -> (u128, usize, usize) {
    let f = FIELDS.iter().find(|f| f.0 == name).expect("field");
    (f.1, f.2, f.3)
}

pub fn preimage(item: &Item) -> Vec<u8> {
    match item {
        Item::Hash(b) => b.clone(),
        Item::Merge(a, b) => [a.as_slice(), b.as_slice()].concat(),
        Item::Mm(ds) => ds.concat(),
        Item::Mwi(d, v) => { let mut r = d.clone(); r.extend_from_slice(&v.to_le_bytes()); r },
        Item::Elems(f, es, _) => {
            let (_, width, _) = field_info(f);
            let mut r = Vec::new();
            for e in es { for c in e { r.extend_from_slice(&c.to_le_bytes()[..width]); } }
            r
        },
        _ => panic!("not a byte item"),
    }
}

fn out_len(hn: &str) -> usize { if hn == "blake3_192" { 24 } else { 32 } }

/// the primitive, straight from the `blake3` / `sha3` crates, truncated and zero-extended like
/// `Digest::as_bytes`
fn primitive(hn: &str, pre: &[u8]) -> [u8; 32] {
    let full: [u8; 32] = if hn == "sha3_256" {
        use sha3::Digest as _;
        sha3::Sha3_256::digest(pre).into()
    } else {
        *blake3::hash(pre).as_bytes()
    };
    let mut r = [0u8; 32];
    let n = out_len(hn);
    r[..n].copy_from_slice(&full[..n]);
    r
}

// ---------------------------------------------------------------------------------------------
// the real byte hashers
// ---------------------------------------------------------------------------------------------
fn dg<H: Hasher>(bytes: &[u8]) -> H::Digest { H::Digest::read_from_bytes(bytes).expect("digest bytes") }

fn byte_item<H: Hasher>(item: &Item) -> [u8; 32] {
    match item {
        Item::Hash(b) => H::hash(b).as_bytes(),
        Item::Merge(a, b) => H::merge(&[dg::<H>(a), dg::<H>(b)]).as_bytes(),
        Item::Mm(ds) => { let v: Vec<H::Digest> = ds.iter().map(|d| dg::<H>(d)).collect(); H::merge_many(&v).as_bytes() },
        Item::Mwi(d, v) => H::merge_with_int(dg::<H>(d), *v).as_bytes(),
        _ => panic!("not a plain byte item"),
    }
}

/// the element with canonical coefficients `c`, reached through different operation chains of the
/// public API (the internal representation may differ, the value may not)
fn route<E: Fld>(c: &[u128], r: usize) -> E {
    let x = E::from_canon(c);
    let y = E::from_canon(&c.iter().map(|v| (v ^ 0x5a5a_5a5a_1234) >> 1).collect::<Vec<_>>());
    let e = match r {
        0 => x,
        1 => x + (y + (-y)),
        2 => (x + y) - y,
        3 => -(-x),
        4 => (x - y) + y,
        5 => x * E::ONE,
        6 => x.double() - x,
        _ => (x + x + x) - x.double(),
    };
    assert!(e.to_canon() == c, "route {r} changed the value");
    e
}
pub const ROUTES: usize = 8;

fn elems_h<H: ElementHasher, E: Fld + FieldElement<BaseField = H::BaseField>>(es: &[Vec<u128>], r: usize) -> [u8; 32] {
    let v: Vec<E> = es.iter().map(|c| route::<E>(c, r)).collect();
    H::hash_elements(&v).as_bytes()
}

fn elems_b<B: StarkField, E: Fld + FieldElement<BaseField = B>>(hn: &str, es: &[Vec<u128>], r: usize) -> [u8; 32] {
    match hn {
        "blake3_256" => elems_h::<Blake3_256<B>, E>(es, r),
        "blake3_192" => elems_h::<Blake3_192<B>, E>(es, r),
        _ => elems_h::<Sha3_256<B>, E>(es, r),
    }
}

/// digest (as 32 bytes) of an item under a byte hasher
pub fn eval_byte(hn: &str, item: &Item) -> [u8; 32] {
    if let Item::Elems(f, es, r) = item {
        type B64 = f64::BaseElement;
        type B62 = f62::BaseElement;
        type B128 = f128::BaseElement;
        return match *f {
            "f64" => elems_b::<B64, B64>(hn, es, *r),
            "f64x2" => elems_b::<B64, QuadExtension<B64>>(hn, es, *r),
            "f64x3" => elems_b::<B64, CubeExtension<B64>>(hn, es, *r),
            "f62" => elems_b::<B62, B62>(hn, es, *r),
            "f62x2" => elems_b::<B62, QuadExtension<B62>>(hn, es, *r),
            "f62x3" => elems_b::<B62, CubeExtension<B62>>(hn, es, *r),
            "f128" => elems_b::<B128, B128>(hn, es, *r),
            _ => elems_b::<B128, QuadExtension<B128>>(hn, es, *r),
        };
    }
    match hn {
        "blake3_256" => byte_item::<Blake3_256<f128::BaseElement>>(item),
        "blake3_192" => byte_item::<Blake3_192<f64::BaseElement>>(item),
        _ => byte_item::<Sha3_256<f62::BaseElement>>(item),
    }
}

// ---------------------------------------------------------------------------------------------
// Rescue: the documented absorption layout, and the real hashers
// ---------------------------------------------------------------------------------------------
#[derive(Clone, Copy, PartialEq)]
pub enum Rk { Rp64, Jive, Rp62 }
impl Rk {
    pub fn name(self) -> &'static str { match self { Rk::Rp64 => "rp64_256", Rk::Jive => "rpjive64_256", Rk::Rp62 => "rp62_248" } }
    fn p(self) -> u128 { if self == Rk::Rp62 { P62 } else { P64 } }
    fn rate(self) -> usize { if self == Rk::Jive { 4 } else { 8 } }
}

pub struct Layout { pub cap: Vec<u64>, pub ops: Vec<(bool, Vec<u64>)> }

/// 7-byte chunks as little-endian integers, a `1` byte appended to the last chunk
pub fn bytes_to_elems(bs: &[u8]) -> Vec<u64> {
    let n = bs.len().div_ceil(7);
    bs.chunks(7).enumerate().map(|(i, ch)| {
        let mut buf = [0u8; 8];
        buf[..ch.len()].copy_from_slice(ch);
        if i == n - 1 { buf[ch.len()] = 1; }
        u64::from_le_bytes(buf)
    }).collect()
}

fn cap_words(k: Rk, v: u64) -> Vec<u64> {
    let mut c = vec![0u64; 4];
    c[if k == Rk::Rp62 { 3 } else { 0 }] = (v as u128 % k.p()) as u64;
    c
}

fn elems_layout(k: Rk, es: &[u64]) -> Layout {
    let rate = k.rate();
    let capv = if k == Rk::Jive { (es.len() % rate != 0) as u64 } else { es.len() as u64 };
    let mut ops = Vec::new();
    for ch in es.chunks(rate) {
        if ch.len() == rate { ops.push((false, ch.to_vec())); }
        else if k == Rk::Jive { ops.push((true, ch.to_vec())); }
        else { let mut b = ch.to_vec(); b.resize(rate, 0); ops.push((false, b)); }
    }
    Layout { cap: cap_words(k, capv), ops }
}

pub fn layout(k: Rk, item: &Item) -> Layout {
    match item {
        Item::Hash(b) => elems_layout(k, &bytes_to_elems(b)),
        Item::RElems(es) => elems_layout(k, es),
        Item::RMm(ds) => elems_layout(k, &ds.concat()),
        Item::RMerge(a, b) => if k == Rk::Jive { Layout { cap: a.to_vec(), ops: vec![(false, b.to_vec())] } }
            else { Layout { cap: cap_words(k, 8), ops: vec![(false, [a.as_slice(), b.as_slice()].concat())] } },
        Item::RMwi(s, v) => {
            let p = k.p();
            let (lo, hi, cnt) = if (*v as u128) < p { (*v, 0u64, 5u64) } else { ((*v as u128 % p) as u64, (*v as u128 / p) as u64, 6u64) };
            if k == Rk::Jive { Layout { cap: s.to_vec(), ops: vec![(false, vec![lo, hi, 0, cnt])] } }
            else { let mut b = s.to_vec(); b.extend_from_slice(&[lo, hi, 0, 0]); Layout { cap: cap_words(k, cnt), ops: vec![(false, b)] } }
        },
        _ => panic!("not a rescue item"),
    }
}

pub fn layout_str(l: &Layout) -> String {
    let ops = if l.ops.is_empty() { "-".to_string() } else {
        l.ops.iter().map(|(pad, b)| format!("{}:{}", if *pad { "p" } else { "a" }, join(b, ","))).collect::<Vec<_>>().join("|")
    };
    format!("cap={} ops={}", join(&l.cap, ","), ops)
}

type E64 = f64::BaseElement;

/// sponge over a layout with the REAL permutation of Rp64_256 (state = capacity 0..4 ++ rate 4..12)
fn sponge_rp64(l: &Layout) -> [u64; 4] {
    let mut st = [E64::ZERO; 12];
    for i in 0..4 { st[i] = E64::new(l.cap[i]); }
    for (_, b) in &l.ops {
        for (i, v) in b.iter().enumerate() { st[4 + i] += E64::new(*v); }
        Rp64_256::apply_permutation(&mut st);
    }
    [st[4].as_int(), st[5].as_int(), st[6].as_int(), st[7].as_int()]
}

/// the same for RpJive64_256 (state = capacity 0..4 ++ rate 4..8); `compress` = Jive summation of
/// the state before and after the single permutation (merge, merge_with_int)
fn sponge_jive(l: &Layout, compress: bool) -> [u64; 4] {
    let mut st = [E64::ZERO; 8];
    for i in 0..4 { st[i] = E64::new(l.cap[i]); }
    let mut init = st;
    for (pad, b) in &l.ops {
        for (i, v) in b.iter().enumerate() { st[4 + i] += E64::new(*v); }
        if *pad {
            st[4 + b.len()] = E64::ONE;
            for j in b.len() + 1..4 { st[4 + j] = E64::ZERO; }
        }
        init = st;
        RpJive64_256::apply_permutation(&mut st);
    }
    if compress {
        let mut r = [0u64; 4];
        for i in 0..4 { r[i] = (init[i] + init[4 + i] + st[i] + st[4 + i]).as_int(); }
        r
    } else {
        [st[4].as_int(), st[5].as_int(), st[6].as_int(), st[7].as_int()]
    }
}

type D64 = <Rp64_256 as Hasher>::Digest;
type DJ = <RpJive64_256 as Hasher>::Digest;
type D62 = <Rp62_248 as Hasher>::Digest;

macro_rules! rescue_eval {
    ($fname:ident, $H:ty, $D:ty, $B:ty) => {
        fn $fname(item: &Item) -> Vec<u64> {
            let mk = |d: &[u64; 4]| <$D>::new([<$B>::new(d[0]), <$B>::new(d[1]), <$B>::new(d[2]), <$B>::new(d[3])]);
            let d = match item {
                Item::Hash(b) => <$H>::hash(b),
                Item::RElems(es) => { let v: Vec<$B> = es.iter().map(|x| <$B>::new(*x)).collect(); <$H>::hash_elements(&v) },
                Item::RMm(ds) => { let v: Vec<$D> = ds.iter().map(mk).collect(); <$H>::merge_many(&v) },
                Item::RMerge(a, b) => <$H>::merge(&[mk(a), mk(b)]),
                Item::RMwi(s, v) => <$H>::merge_with_int(mk(s), *v),
                _ => panic!("not a rescue item"),
            };
            d.as_elements().iter().map(|e| e.as_int()).collect()
        }
    };
}
rescue_eval!(eval_rp64, Rp64_256, D64, f64::BaseElement);
rescue_eval!(eval_jive, RpJive64_256, DJ, f64::BaseElement);
rescue_eval!(eval_rp62, Rp62_248, D62, f62::BaseElement);

pub fn eval_rescue(k: Rk, item: &Item) -> Vec<u64> {
    match k { Rk::Rp64 => eval_rp64(item), Rk::Jive => eval_jive(item), Rk::Rp62 => eval_rp62(item) }
}

// ---------------------------------------------------------------------------------------------
// cases
// ---------------------------------------------------------------------------------------------
/// class number of every item (first occurrence order); `P` = the hasher panicked on this item
fn classes<T: PartialEq>(xs: &[Option<T>]) -> String {
    let mut reps: Vec<(usize, usize)> = Vec::new(); // (index of representative, class number)
    let mut out: Vec<String> = Vec::new();
    for (i, x) in xs.iter().enumerate() {
        if x.is_none() { out.push("P".into()); continue; }
        match reps.iter().find(|(j, _)| xs[*j] == *x) {
            Some((_, c)) => out.push(c.to_string()),
            None => { let c = reps.len(); reps.push((i, c)); out.push(c.to_string()); },
        }
    }
    join(&out, " ")
}

fn guarded<T>(f: impl FnOnce() -> T) -> Option<T> { std::panic::catch_unwind(std::panic::AssertUnwindSafe(f)).ok() }

fn distinct(n: usize) -> String { join(&(0..n).collect::<Vec<_>>(), " ") }

fn h_case(out: &mut Out, hn: &str, item: &Item) {
    let route = if let Item::Elems(_, _, r) = item { format!(" r{r}") } else { String::new() };
    out.case(&format!("c15 h {hn} {}{route}", item.show()), "~ ok$", || {
        let pre = preimage(item);
        let want = primitive(hn, &pre);
        let got = eval_byte(hn, item);
        let verdict = if got == want { "ok".to_string() } else { format!("MISMATCH got={} want={}", hex(&got), hex(&want)) };
        format!("{} {} {verdict}", hex(&pre), out_len(hn))
    });
}

fn l_case(out: &mut Out, k: Rk, item: &Item) {
    out.case(&format!("c15 l {} {}", k.name(), item.show()), "~ ok$", || {
        let l = layout(k, item);
        let compress = matches!(item, Item::RMerge(..) | Item::RMwi(..));
        let want = if k == Rk::Rp64 { sponge_rp64(&l).to_vec() } else { sponge_jive(&l, compress).to_vec() };
        let got = eval_rescue(k, item);
        let verdict = if got == want { "ok".to_string() } else { format!("MISMATCH got={} want={}", join(&got, ","), join(&want, ",")) };
        format!("{} {verdict}", layout_str(&l))
    });
}

fn cls_case(out: &mut Out, hn: &str, items: &[Item], expect: &str) {
    let req = format!("c15 cls {hn} {}", items.iter().map(|i| i.show()).collect::<Vec<_>>().join(" "));
    out.case(&req, expect, || {
        if let Some(k) = [Rk::Rp64, Rk::Jive, Rk::Rp62].into_iter().find(|k| k.name() == hn) {
            classes(&items.iter().map(|i| guarded(|| eval_rescue(k, i))).collect::<Vec<_>>())
        } else {
            classes(&items.iter().map(|i| guarded(|| eval_byte(hn, i))).collect::<Vec<_>>())
        }
    });
}

fn biased_val(rng: &mut Rng, p: u128) -> u128 {
    match rng.below(8) {
        0 => 0,
        1 => 1,
        2 => p - 1,
        3 => p - 1 - rng.below(3) as u128,
        4 => (1u128 << rng.below(64)) % p,
        5 => (p - 1) / 2 + rng.below(2) as u128,
        _ => rng.next128() % p,
    }
}

fn rand_elems(rng: &mut Rng, p: u128, deg: usize, n: usize) -> Vec<Vec<u128>> {
    (0..n).map(|_| (0..deg).map(|_| biased_val(rng, p)).collect()).collect()
}

fn rand_digest(rng: &mut Rng, hn: &str) -> Vec<u8> {
    let n = out_len(hn);
    match rng.below(6) { 0 => vec![0u8; n], 1 => vec![0xffu8; n], _ => rng.bytes(n) }
}

/// family `c15`
pub fn run(rng: &mut Rng, out: &mut Out, n: usize) {
    for hn in BYTE_HASHERS {
        // hash: every length 0..=70, chunk/block boundaries of the primitives, random lengths
        let mut lens: Vec<usize> = (0..=70).collect();
        lens.extend([127, 128, 129, 135, 136, 137, 1023, 1024, 1025, 2048, 2049]);
        for _ in 0..n { lens.push(rng.below(400) as usize); }
        for len in lens {
            out.count("hash");
            let b = match rng.below(4) { 0 => vec![0u8; len], 1 => vec![1u8; len], _ => rng.bytes(len) };
            h_case(out, hn, &Item::Hash(b));
        }
        for i in 0..(8 + n) {
            out.count("merge");
            let (a, b) = (rand_digest(rng, hn), rand_digest(rng, hn));
            h_case(out, hn, &Item::Merge(a.clone(), b.clone()));
            // merge = merge_many of two = hash of the concatenation
            cls_case(out, hn, &[Item::Merge(a.clone(), b.clone()), Item::Mm(vec![a.clone(), b.clone()]), Item::Hash([a.as_slice(), b.as_slice()].concat())], "0 0 0");
            out.count("merge_many");
            let k = if i <= 6 { i } else { rng.below(12) as usize };
            let ds: Vec<Vec<u8>> = (0..k).map(|_| rand_digest(rng, hn)).collect();
            h_case(out, hn, &Item::Mm(ds.clone()));
            cls_case(out, hn, &[Item::Mm(ds.clone()), Item::Hash(ds.concat())], "0 0");
        }
        let mut ints: Vec<u64> = vec![0, 1, 255, 256, 65535, 1 << 32, (1 << 32) - 1, 1 << 63, u64::MAX, u64::MAX - 1,
            P64 as u64, P64 as u64 - 1, P64 as u64 + 1, P62 as u64, P62 as u64 + 1, 0x0102030405060708];
        for _ in 0..n { ints.push(rng.biased(64) as u64); }
        for v in ints {
            out.count("merge_with_int");
            let d = rand_digest(rng, hn);
            h_case(out, hn, &Item::Mwi(d.clone(), v));
            let mut cat = d.clone();
            cat.extend_from_slice(&v.to_le_bytes());
            cls_case(out, hn, &[Item::Mwi(d, v), Item::Hash(cat)], "0 0");
        }
        // hash_elements over every field and extension; every representation route of equal value
        for (f, p, _, deg) in FIELDS {
            let mut lens: Vec<usize> = (0..=5).collect();
            for _ in 0..(1 + n / 8) { lens.push(rng.below(40) as usize); }
            for len in lens {
                let es = rand_elems(rng, p, deg, len);
                for r in 0..ROUTES {
                    out.count(&format!("elems:{f}:r{r}"));
                    h_case(out, hn, &Item::Elems(f, es.clone(), r));
                }
                // all routes and the plain byte string: one class
                let mut items: Vec<Item> = (0..ROUTES).map(|r| Item::Elems(f, es.clone(), r)).collect();
                items.push(Item::Hash(preimage(&items[0])));
                cls_case(out, hn, &items, &join(&vec![0; ROUTES + 1], " "));
            }
            // zero elements whose representation is not the canonical zero: x + (-x), x - x
            out.count("elems:zero-reps");
            let z = vec![vec![0u128; deg]; 3];
            let items: Vec<Item> = (0..ROUTES).map(|r| Item::Elems(f, z.clone(), r)).collect();
            cls_case(out, hn, &items, &join(&vec![0; ROUTES], " "));
        }
    }
}

fn rdig(rng: &mut Rng, p: u128) -> [u64; 4] {
    let mut d = [0u64; 4];
    for x in d.iter_mut() { *x = biased_val(rng, p) as u64; }
    d
}

/// family `c17`
pub fn run_c17(rng: &mut Rng, out: &mut Out, n: usize) {
    let rescue = [Rk::Rp64, Rk::Jive, Rk::Rp62];
    let names: Vec<&str> = BYTE_HASHERS.iter().copied().chain(rescue.iter().map(|k| k.name())).collect();
    for hn in names.iter().copied() {
        let rk = rescue.iter().copied().find(|k| k.name() == hn);
        // (1) every length 0..=64 of a constant byte string (0x01 is the terminator byte of the Rescue padding)
        for c in [0x00u8, 0x01, 0xff, 0x80] {
            out.count("hash:const-lengths");
            let items: Vec<Item> = (0..=64).map(|l| Item::Hash(vec![c; l])).collect();
            cls_case(out, hn, &items, &distinct(items.len()));
        }
        // (2) chunk-boundary lengths: multiples of 7 and of the rate (7*4, 7*8 bytes), +-1
        for c in [0x00u8, 0x01] {
            out.count("hash:boundary-lengths");
            let mut lens: Vec<usize> = (0..=34).map(|k| 7 * k).collect();
            for k in 1..=6 { lens.extend([28 * k - 1, 28 * k + 1]); }
            lens.sort();
            lens.dedup();
            let items: Vec<Item> = lens.iter().map(|l| Item::Hash(vec![c; *l])).collect();
            cls_case(out, hn, &items, &distinct(items.len()));
        }
        // (3) zero-extensions, one-extensions and prefixes of random strings at boundary lengths
        let mut bases: Vec<usize> = vec![0, 1, 6, 7, 8, 13, 14, 15, 27, 28, 29, 55, 56, 57, 63];
        for _ in 0..n { bases.push(rng.below(130) as usize); }
        for len in bases {
            out.count("hash:zero-extensions");
            let s = rng.bytes(len);
            let mut items = Vec::new();
            for k in 0..=16 { let mut t = s.clone(); t.extend(vec![0u8; k]); items.push(Item::Hash(t)); }
            for k in 0..=9 { let mut t = s.clone(); t.push(1); t.extend(vec![0u8; k]); items.push(Item::Hash(t)); }
            cls_case(out, hn, &items, &distinct(items.len()));
            out.count("hash:prefixes");
            let s = rng.bytes(len + 20);
            let items: Vec<Item> = (0..=s.len()).map(|l| Item::Hash(s[..l].to_vec())).collect();
            cls_case(out, hn, &items, &distinct(items.len()));
        }
        match rk {
            None => {
                // element lists with trailing zero elements / prefixes, per field
                for (f, p, _, deg) in FIELDS {
                    for base in [0usize, 1, 3, 4, 7, 8] {
                        out.count("elems:trailing-zeros");
                        let es = rand_elems(rng, p, deg, base + 4);
                        let mut items: Vec<Item> = (0..=es.len()).map(|l| Item::Elems(f, es[..l].to_vec(), rng.below(ROUTES as u64) as usize)).collect();
                        for k in 1..=6 { let mut t = es[..base].to_vec(); t.extend(vec![vec![0u128; deg]; k]); items.push(Item::Elems(f, t, 0)); }
                        let items = dedup_items(items);
                        cls_case(out, hn, &items, &distinct(items.len()));
                    }
                }
                // digest lists: prefixes, trailing zero digests, nested splits
                for _ in 0..(3 + n / 4) {
                    out.count("merge_many:splits");
                    let ds: Vec<Vec<u8>> = (0..6).map(|_| rng.bytes(out_len(hn))).collect();
                    let mut items: Vec<Item> = (0..=6).map(|l| Item::Mm(ds[..l].to_vec())).collect();
                    for k in 1..=3 { let mut t = ds[..2].to_vec(); t.extend(vec![vec![0u8; out_len(hn)]; k]); items.push(Item::Mm(t)); }
                    // the same four digests merged in differently split groups (inner digests from the real hasher)
                    let m = |xs: &[Vec<u8>]| -> Vec<u8> { eval_byte(hn, &Item::Mm(xs.to_vec()))[..out_len(hn)].to_vec() };
                    for k in 1..4 { items.push(Item::Mm(vec![m(&ds[..k]), m(&ds[k..4])])); }
                    items.push(Item::Mm(vec![m(&ds[..1]), m(&ds[1..2]), m(&ds[2..4])]));
                    cls_case(out, hn, &items, &distinct(items.len()));
                }
                // integers x and x + p (both moduli), around 2^32 and 2^64
                out.count("merge_with_int:x-and-x+p");
                let d = rng.bytes(out_len(hn));
                let mut vs: Vec<u64> = Vec::new();
                for x in [0u64, 1, 2, 5, 6, 255, 256, (1 << 32) - 2] { vs.extend([x, x + P64 as u64, x + P62 as u64, x + 2 * P62 as u64, x + 3 * P62 as u64]); }
                vs.extend([u64::MAX, 1 << 63]);
                vs.sort();
                vs.dedup();
                let items: Vec<Item> = vs.iter().map(|v| Item::Mwi(d.clone(), *v)).collect();
                cls_case(out, hn, &items, &distinct(items.len()));
            },
            Some(k) => {
                let p = k.p();
                let rate = k.rate();
                // element lists: prefixes, trailing zeros, trailing one (Jive's padding element)
                for base in [0usize, 1, rate - 1, rate, rate + 1, 2 * rate - 1, 2 * rate, 2 * rate + 1, 3 * rate] {
                    out.count("elems:trailing-zeros");
                    let es: Vec<u64> = (0..base + 3).map(|_| biased_val(rng, p) as u64).collect();
                    let mut items: Vec<Item> = (0..=es.len()).map(|l| Item::RElems(es[..l].to_vec())).collect();
                    for j in 1..=(2 * rate + 1) { let mut t = es[..base].to_vec(); t.extend(vec![0u64; j]); items.push(Item::RElems(t)); }
                    for j in 0..=rate { let mut t = es[..base].to_vec(); t.push(1); t.extend(vec![0u64; j]); items.push(Item::RElems(t)); }
                    let items = dedup_items(items);
                    cls_case(out, hn, &items, &distinct(items.len()));
                }
                // digest lists
                for _ in 0..(3 + n / 4) {
                    out.count("merge_many:splits");
                    let ds: Vec<[u64; 4]> = (0..6).map(|_| rdig(rng, p)).collect();
                    let mut items: Vec<Item> = (0..=6).map(|l| Item::RMm(ds[..l].to_vec())).collect();
                    for j in 1..=3 { let mut t = ds[..2].to_vec(); t.extend(vec![[0u64; 4]; j]); items.push(Item::RMm(t)); }
                    let m = |xs: &[[u64; 4]]| -> [u64; 4] { eval_rescue(k, &Item::RMm(xs.to_vec())).try_into().unwrap() };
                    for j in 1..4 { items.push(Item::RMm(vec![m(&ds[..j]), m(&ds[j..4])])); }
                    items.push(Item::RMm(vec![m(&ds[..1]), m(&ds[1..2]), m(&ds[2..4])]));
                    cls_case(out, hn, &items, &distinct(items.len()));
                }
                // integers x and x + p, x + 2p, .. (as far as they fit into u64)
                for _ in 0..(2 + n / 8) {
                    out.count("merge_with_int:x-and-x+p");
                    let s = rdig(rng, p);
                    let mut vs: Vec<u64> = Vec::new();
                    for x in [0u128, 1, 2, 5, 6, (1 << 32) - 2, p - 1, rng.below(1 << 31) as u128] {
                        let mut v = x;
                        while v <= u64::MAX as u128 { vs.push(v as u64); v += p; }
                    }
                    vs.push(u64::MAX);
                    vs.sort();
                    vs.dedup();
                    let items: Vec<Item> = vs.iter().map(|v| Item::RMwi(s, *v)).collect();
                    cls_case(out, hn, &items, &distinct(items.len()));
                }
                // coincidences the layout predicts (they tie the layout model to all three hashers):
                // hash(bytes) = hash_elements(chunks), merge_many = hash_elements(flattened),
                // sponge variants: merge = hash_elements(a ++ b), merge_with_int = hash_elements(seed ++ split)
                let mut lens: Vec<usize> = (0..=30).collect();
                lens.extend([55, 56, 57, 63, 64, 111, 112, 113]);
                for len in lens {
                    out.count("coincide:hash-vs-elements");
                    let b = match rng.below(3) { 0 => vec![0u8; len], 1 => vec![1u8; len], _ => rng.bytes(len) };
                    cls_case(out, hn, &[Item::Hash(b.clone()), Item::RElems(bytes_to_elems(&b))], "0 0");
                }
                for j in 0..5 {
                    out.count("coincide:merge_many-vs-elements");
                    let ds: Vec<[u64; 4]> = (0..j).map(|_| rdig(rng, p)).collect();
                    cls_case(out, hn, &[Item::RMm(ds.clone()), Item::RElems(ds.concat())], "0 0");
                }
                let (a, b) = (rdig(rng, p), rdig(rng, p));
                let ab = [a.as_slice(), b.as_slice()].concat();
                out.count("coincide:merge");
                if k == Rk::Jive {
                    cls_case(out, hn, &[Item::RMerge(a, b), Item::RMm(vec![a, b]), Item::RElems(ab)], "0 1 1");
                } else {
                    cls_case(out, hn, &[Item::RMerge(a, b), Item::RMm(vec![a, b]), Item::RElems(ab)], "0 0 0");
                }
                for v in [0u64, 7, p as u64 - 1, p as u64, p as u64 + 3, u64::MAX] {
                    out.count("coincide:merge_with_int");
                    let mut es = a.to_vec();
                    es.push((v as u128 % p) as u64);
                    if v as u128 >= p { es.push((v as u128 / p) as u64); }
                    cls_case(out, hn, &[Item::RMwi(a, v), Item::RElems(es)], if k == Rk::Jive { "0 1" } else { "0 0" });
                }
                // layout + real permutation = real digest (the permutation is public for two of the three)
                if k != Rk::Rp62 {
                    let mut lens: Vec<usize> = (0..=64).collect();
                    for _ in 0..n { lens.push(rng.below(300) as usize); }
                    for len in lens {
                        out.count("layout:hash");
                        let b = match rng.below(4) { 0 => vec![0u8; len], 1 => vec![1u8; len], _ => rng.bytes(len) };
                        l_case(out, k, &Item::Hash(b));
                    }
                    for len in (0..=26).chain((0..n).map(|_| 0)) {
                        out.count("layout:elements");
                        let len = if len == 0 { rng.below(60) as usize } else { len };
                        let es: Vec<u64> = (0..len).map(|_| biased_val(rng, p) as u64).collect();
                        l_case(out, k, &Item::RElems(es));
                    }
                    l_case(out, k, &Item::RElems(vec![]));
                    for j in 0..(6 + n / 4) {
                        out.count("layout:merge");
                        let ds: Vec<[u64; 4]> = (0..(j % 7)).map(|_| rdig(rng, p)).collect();
                        l_case(out, k, &Item::RMm(ds));
                        l_case(out, k, &Item::RMerge(rdig(rng, p), rdig(rng, p)));
                    }
                    let mut vs = vec![0u64, 1, 5, 6, p as u64 - 1, p as u64, p as u64 + 1, u64::MAX, (1 << 32) - 2 + p as u64];
                    for _ in 0..n { vs.push(rng.biased(64) as u64); }
                    for v in vs {
                        out.count("layout:merge_with_int");
                        l_case(out, k, &Item::RMwi(rdig(rng, p), v));
                    }
                }
            },
        }
    }
}

/// drop items whose request text repeats an earlier one (the families must consist of distinct inputs)
fn dedup_items(items: Vec<Item>) -> Vec<Item> {
    let mut seen = std::collections::BTreeSet::new();
    items.into_iter().filter(|i| {
        let key = match i { Item::Elems(f, es, _) => format!("{f}/{}", elems_str(es)), other => other.show() };
        seen.insert(key)
    }).collect()
}
