//! C22: boundary constraints vanish exactly on asserted cells; group divisors; coefficient order.
//!
//! Request lines (`c22 <op> ..`), field `f` in {f64, f62, f128}; assertions are written as in C21:
//! `s:<col>:<step>:<v>`, `p:<col>:<first>:<stride>:<v>`, `q:<col>:<first>:<stride>:<v1,v2,..>`.
//!   new <f> <w> <n> <a>..        -> `ok <group> <group> ..` with
//!                                   group = `[<k>,<c>,<degree>]<col>/<cc>/<offset step>/<offset>/<poly>;..`
//!                                   (divisor x^k - c; constraints in stored order) | `abort <kind>`
//!   eval <f> <n> <a> <x:t,..>    -> `<evaluate_at(x, t)>,..` for the constraint built from `a`
//!   gdiv <f> <n> <a> <x,..>      -> `deg=<degree> vals=<divisor.evaluate_at(x)>,..` (group of `a`)
//! All objects come from `Air::get_boundary_constraints` of the configurable `GenAir` (c23.rs) with
//! composition coefficients 1, 2, 3, .. in list order.
//!
//! ORACLES (independent u128 arithmetic; step sets by explicit scans as in c21.rs):
//! * eval: at x = g^step of an asserted step with asserted value v the result is t - v
//!   (0 for t = v, 1 for t = v + 1);
//! * gdiv: degree = number of asserted steps, value = prod over asserted steps (x - g^step): zero
//!   exactly on the asserted points of the trace domain;
//! * new: groups in (stride, first step) order, constraints in column order, coefficient i+1 for
//!   the i-th assertion in (stride, first step, column) order; a PERMUTED list must give the
//!   identical rendering (oracle = the rendering obtained for the first listing order).
use std::panic::{catch_unwind, AssertUnwindSafe};

use winter_air::{Air, Assertion, BoundaryConstraintGroup};
use winter_math::fields::{f128, f62, f64};

use crate::c10::{mulmod, submod};
use crate::c23::{build_air, canon, domain_gen, el, field_consts, invmod, join, powmod, Cfg, GenAir, SF};
use crate::out::Out;
use crate::rng::Rng;

#[derive(Clone, Debug, PartialEq)]
enum Asn {
    Single(usize, usize, u128),
    Periodic(usize, usize, usize, u128),
    Sequence(usize, usize, usize, Vec<u128>),
}

impl Asn {
    fn token(&self) -> String {
        match self {
            Asn::Single(c, s, v) => format!("s:{c}:{s}:{v}"),
            Asn::Periodic(c, f, st, v) => format!("p:{c}:{f}:{st}:{v}"),
            Asn::Sequence(c, f, st, vs) => format!("q:{c}:{f}:{st}:{}", join(vs)),
        }
    }
    fn build<B: SF>(&self) -> Assertion<B> {
        match self {
            Asn::Single(c, s, v) => Assertion::single(*c, *s, el(*v)),
            Asn::Periodic(c, f, st, v) => Assertion::periodic(*c, *f, *st, el(*v)),
            Asn::Sequence(c, f, st, vs) => Assertion::sequence(*c, *f, *st, vs.iter().map(|v| el(*v)).collect()),
        }
    }
    fn column(&self) -> usize {
        match self { Asn::Single(c, ..) | Asn::Periodic(c, ..) | Asn::Sequence(c, ..) => *c }
    }
    /// (stride, first step) as stored (a one-value sequence is a single assertion)
    fn key(&self) -> (usize, usize) {
        match self {
            Asn::Single(_, s, _) => (0, *s),
            Asn::Periodic(_, f, st, _) => (*st, *f),
            Asn::Sequence(_, f, st, vs) => (if vs.len() == 1 { 0 } else { *st }, *f),
        }
    }
    /// ORACLE: explicit (step, value) list, by a scan over all rows (all assertions here are valid)
    fn explicit(&self, n: usize) -> Vec<(usize, u128)> {
        match self {
            Asn::Single(_, s, v) => vec![(*s, *v)],
            Asn::Periodic(_, f, st, v) => (0..n).filter(|s| *s >= *f && (*s - *f) % *st == 0).map(|s| (s, *v)).collect(),
            Asn::Sequence(_, f, st, vs) => {
                if vs.len() == 1 { return vec![(*f, vs[0])]; }
                let mut res = Vec::new();
                let mut k = 0;
                for s in 0..n { if s >= *f && (s - *f) % *st == 0 && k < vs.len() { res.push((s, vs[k])); k += 1; } }
                res
            },
        }
    }
}

fn gen_val(rng: &mut Rng, p: u128) -> u128 {
    match rng.below(8) { 0 => 0, 1 => 1, 2 => p - 1, 3 => p - 2, _ => rng.next128() % p }
}

/// every kind of assertion valid for a trace of length n on column `c` (random values)
fn valid_for(rng: &mut Rng, p: u128, n: usize, c: usize) -> Vec<Asn> {
    let mut res = Vec::new();
    for s in 0..n { res.push(Asn::Single(c, s, gen_val(rng, p))); }
    let mut st = 2;
    while st <= n {
        for f in 0..st {
            res.push(Asn::Periodic(c, f, st, gen_val(rng, p)));
            if st * 2 <= n { res.push(Asn::Sequence(c, f, st, (0..n / st).map(|_| gen_val(rng, p)).collect())); }
        }
        st *= 2;
    }
    res
}

fn air_for<B: SF>(w: usize, n: usize, asns: &[Asn]) -> Result<GenAir<B>, String> {
    let cfg = Cfg::<B> { degrees: vec![(1, vec![])], exemptions: None, assertions: asns.iter().map(|a| a.build()).collect(), periodic: vec![] };
    build_air(w, n, 2, cfg)
}

fn coeffs<B: SF>(k: usize) -> Vec<B> { (0..k).map(|i| el(i as u128 + 1)).collect() }

fn render<B: SF>(groups: &[BoundaryConstraintGroup<B, B>]) -> String {
    let gs: Vec<String> = groups.iter().map(|g| {
        let num = g.divisor().numerator();
        let head = format!("[{},{},{}]", num.iter().map(|t| t.0.to_string()).collect::<Vec<_>>().join("+"),
            num.iter().map(|t| canon(t.1).to_string()).collect::<Vec<_>>().join("+"), g.divisor().degree());
        let cs: Vec<String> = g.constraints().iter().map(|c| format!("{}/{}/{}/{}/{}", c.column(), canon(*c.cc()), c.poly_offset().0,
            canon(c.poly_offset().1), join(&c.poly().iter().map(|x| canon(*x)).collect::<Vec<_>>()))).collect();
        format!("{head}{}", cs.join(";"))
    }).collect();
    format!("ok {}", gs.join(" "))
}

fn run_new<B: SF>(w: usize, n: usize, asns: &[Asn]) -> String {
    let air = match air_for::<B>(w, n, asns) { Ok(a) => a, Err(m) => return format!("abort air {m}") };
    let cc = coeffs::<B>(asns.len());
    match catch_unwind(AssertUnwindSafe(|| air.get_boundary_constraints::<B>(None, &cc))) {
        Ok(bc) => render(bc.main_constraints()),
        Err(e) => {
            let m = crate::c23::panic_msg(e);
            if m.contains("overlaps with assertion") { "abort overlap".to_string() } else if m.contains("is invalid") { "abort invalid".to_string() } else { "abort other".to_string() }
        },
    }
}

/// ORACLE for `new`: structure, order, coefficients, offsets (polynomials left open)
fn expect_new(name: &str, n: usize, asns: &[Asn]) -> String {
    let (p, _, _) = field_consts(name);
    let g = domain_gen(name, n);
    let mut keyed: Vec<((usize, usize, usize), &Asn)> = asns.iter().map(|a| ((a.key().0, a.key().1, a.column()), a)).collect();
    keyed.sort_by_key(|k| k.0);
    let mut groups: Vec<String> = Vec::new();
    let mut last = None;
    for (i, (key, a)) in keyed.iter().enumerate() {
        let steps = a.explicit(n);
        let k = steps.len();
        let first = key.1;
        if last != Some((key.0, key.1)) {
            // every asserted point x of the group has the same k-th power: that is the constant
            let c = powmod(powmod(g, first as u128, p), k as u128, p);
            groups.push(format!("\\[{k},{c},{k}\\]"));
            last = Some((key.0, key.1));
        } else {
            groups.last_mut().unwrap().push(';');
        }
        let multi = matches!(a, Asn::Sequence(_, _, _, vs) if vs.len() > 1);
        let (os, ov) = if multi && first != 0 { (first, invmod(powmod(g, first as u128, p), p)) } else { (0, 1) };
        let poly = if multi { "[0-9,]+".to_string() } else { steps[0].1.to_string() };
        groups.last_mut().unwrap().push_str(&format!("{}/{}/{os}/{ov}/{poly}", key.2, i + 1));
    }
    format!("~^ok {}$", groups.join(" "))
}

fn new_cases<B: SF>(rng: &mut Rng, out: &mut Out, w: usize, n: usize, asns: &[Asn], perms: usize) {
    let name = B::NAME;
    let req = |l: &[Asn]| format!("c22 new {name} {w} {n} {}", l.iter().map(|a| a.token()).collect::<Vec<_>>().join(" "));
    out.count("new:base");
    let base = run_new::<B>(w, n, asns);
    out.case(&req(asns), &expect_new(name, n, asns), || run_new::<B>(w, n, asns));
    for k in 0..perms {
        let mut l = asns.to_vec();
        if k == 0 { l.reverse(); } else { for i in (1..l.len()).rev() { l.swap(i, rng.below(i as u64 + 1) as usize); } }
        if l == asns { continue; }
        out.count("new:permuted");
        out.case(&req(&l), &base, || run_new::<B>(w, n, &l));
    }
}

/// a random valid (pairwise non-overlapping) assertion set
fn random_set(rng: &mut Rng, p: u128, w: usize, n: usize, want: usize) -> Vec<Asn> {
    let mut used: Vec<Vec<bool>> = vec![vec![false; n]; w];
    let mut res: Vec<Asn> = Vec::new();
    for _ in 0..want * 4 {
        if res.len() >= want { break; }
        let c = rng.below(w as u64) as usize;
        let log = n.trailing_zeros() as u64;
        let a = match rng.below(7) {
            0 | 1 => Asn::Single(c, match rng.below(4) { 0 => 0, 1 => n - 1, _ => rng.below(n as u64) as usize }, gen_val(rng, p)),
            2 | 3 => { let st = 2usize << rng.below(log); Asn::Periodic(c, rng.below(st as u64) as usize, st, gen_val(rng, p)) },
            _ => {
                let st = 2usize << rng.below(log - 1);
                let f = if rng.chance(1, 3) { 0 } else { rng.below(st as u64) as usize };
                Asn::Sequence(c, f, st, (0..n / st).map(|_| gen_val(rng, p)).collect())
            },
        };
        let steps = a.explicit(n);
        if steps.iter().any(|(s, _)| used[c][*s]) { continue; }
        for (s, _) in &steps { used[c][*s] = true; }
        res.push(a);
    }
    res
}

fn eval_case<B: SF>(rng: &mut Rng, out: &mut Out, n: usize, a: &Asn) {
    let name = B::NAME;
    let (p, _, _) = field_consts(name);
    let g = domain_gen(name, n);
    let mut pairs: Vec<(u128, u128)> = Vec::new();
    let mut expect: Vec<u128> = Vec::new();
    let steps = a.explicit(n);
    let pick: Vec<usize> = if steps.len() <= 40 { (0..steps.len()).collect() } else {
        let mut v = vec![0, 1, steps.len() / 2, steps.len() - 2, steps.len() - 1];
        for _ in 0..12 { v.push(rng.below(steps.len() as u64) as usize); }
        v
    };
    for i in pick {
        let (s, v) = steps[i];
        let x = powmod(g, s as u128, p);
        let t3 = rng.next128() % p;
        for t in [v, (v + 1) % p, t3] { pairs.push((x, t)); expect.push(submod(t, v, p)); }
    }
    out.count(match a { Asn::Single(..) => "eval:single", Asn::Periodic(..) => "eval:periodic", Asn::Sequence(_, f, _, vs) => if vs.len() >= 64 { "eval:sequence>=64" } else if *f != 0 { "eval:sequence-offset" } else { "eval:sequence" } });
    let req = format!("c22 eval {name} {n} {} {}", a.token(), pairs.iter().map(|(x, t)| format!("{x}:{t}")).collect::<Vec<_>>().join(","));
    out.case(&req, &join(&expect), || {
        let air = match air_for::<B>(a.column() + 1, n, std::slice::from_ref(a)) { Ok(a) => a, Err(m) => return format!("abort air {m}") };
        let bc = air.get_boundary_constraints::<B>(None, &coeffs::<B>(1));
        let c = &bc.main_constraints()[0].constraints()[0];
        join(&pairs.iter().map(|(x, t)| canon(c.evaluate_at(el::<B>(*x), el::<B>(*t)))).collect::<Vec<_>>())
    });
}

fn gdiv_case<B: SF>(rng: &mut Rng, out: &mut Out, n: usize, a: &Asn, all_points: bool) {
    let name = B::NAME;
    let (p, _, _) = field_consts(name);
    let g = domain_gen(name, n);
    let steps = a.explicit(n);
    let mut xs: Vec<u128> = if all_points { (0..n).map(|s| powmod(g, s as u128, p)).collect() } else {
        let mut v: Vec<usize> = vec![0, 1, n - 1, steps[0].0, steps[steps.len() - 1].0, (steps[0].0 + 1) % n];
        for _ in 0..6 { v.push(rng.below(n as u64) as usize); }
        v.iter().map(|&s| powmod(g, s as u128, p)).collect()
    };
    xs.push(domain_gen(name, 2 * n));
    xs.push(rng.next128() % p);
    let pts: Vec<u128> = steps.iter().map(|(s, _)| powmod(g, *s as u128, p)).collect();
    let vals: Vec<u128> = xs.iter().map(|&x| pts.iter().fold(1u128, |r, &pt| mulmod(r, submod(x, pt, p), p))).collect();
    out.count("gdiv");
    out.case(&format!("c22 gdiv {name} {n} {} {}", a.token(), join(&xs)), &format!("deg={} vals={}", steps.len(), join(&vals)), || {
        let air = match air_for::<B>(a.column() + 1, n, std::slice::from_ref(a)) { Ok(a) => a, Err(m) => return format!("abort air {m}") };
        let bc = air.get_boundary_constraints::<B>(None, &coeffs::<B>(1));
        let d = bc.main_constraints()[0].divisor();
        format!("deg={} vals={}", d.degree(), join(&xs.iter().map(|x| canon(d.evaluate_at(el::<B>(*x)))).collect::<Vec<_>>()))
    });
}

fn run_field<B: SF>(rng: &mut Rng, out: &mut Out, scale: usize) {
    let (p, _, _) = field_consts(B::NAME);
    // every assertion shape for n = 8, 16 (32 in larger runs): all asserted steps, all domain points
    let mut n = 8;
    while n <= (if scale >= 16 { 32 } else { 16 }) {
        for a in valid_for(rng, p, n, 0) {
            eval_case::<B>(rng, out, n, &a);
            gdiv_case::<B>(rng, out, n, &a, true);
        }
        n *= 2;
    }
    // long sequences (64 and more values) with zero and non-zero first step
    for (n, st) in [(128usize, 2usize), (256, 4), (256, 2), (512, 2)].into_iter().take(if scale >= 16 { 4 } else { 3 }) {
        for f in [0, 1, st - 1] {
            let a = Asn::Sequence(1, f, st, (0..n / st).map(|_| gen_val(rng, p)).collect());
            eval_case::<B>(rng, out, n, &a);
            gdiv_case::<B>(rng, out, n, &a, false);
        }
        let a = Asn::Periodic(0, st - 1, st, 5);
        eval_case::<B>(rng, out, n, &a);
        gdiv_case::<B>(rng, out, n, &a, false);
        let a = Asn::Single(0, n - 1, p - 1);
        eval_case::<B>(rng, out, n, &a);
        gdiv_case::<B>(rng, out, n, &a, false);
    }
    // assertion sets: structure, coefficient assignment, independence of the listing order
    for i in 0..4 * scale {
        let n = 8usize << rng.below(4);
        let w = rng.range(1, 4) as usize;
        let want = if i % 4 == 0 { 2 } else { rng.range(2, 9) as usize };
        let set = random_set(rng, p, w, n, want);
        if set.is_empty() { continue; }
        new_cases::<B>(rng, out, w, n, &set, 3);
    }
    // same (stride, first step) on several columns, listed in descending column order
    let set = vec![Asn::Single(2, 0, 3), Asn::Single(0, 0, 4), Asn::Single(1, 0, 5), Asn::Periodic(3, 1, 4, 6), Asn::Periodic(2, 1, 4, 7),
        Asn::Sequence(1, 1, 2, (0..8).map(|i| i as u128 + 10).collect()), Asn::Sequence(0, 1, 2, (0..8).map(|i| i as u128 + 20).collect())];
    new_cases::<B>(rng, out, 4, 16, &set, 6);
}

pub fn run(rng: &mut Rng, out: &mut Out, n: usize) {
    run_field::<f64::BaseElement>(rng, out, n);
    run_field::<f128::BaseElement>(rng, out, n);
    run_field::<f62::BaseElement>(rng, out, n / 2);
    // rejected lists still abort (C21 covers the classification)
    let a = Asn::Single(0, 1, 1);
    let b = Asn::Periodic(0, 1, 2, 1);
    out.case(&format!("c22 new f64 1 8 {} {}", a.token(), b.token()), "abort overlap", || run_new::<f64::BaseElement>(1, 8, &[a.clone(), b.clone()]));
    out.case(&format!("c22 new f64 1 8 {}", Asn::Single(1, 1, 1).token()), "abort invalid", || run_new::<f64::BaseElement>(1, 8, &[Asn::Single(1, 1, 1)]));
}
