//! Protocol objects: wire formats (C07 round trips, C05 decoding of untrusted bytes) and seed
//! elements (C24) of TraceInfo, ProofOptions, Context and the byte containers of a proof.
use winter_air::{
    proof::{Commitments, Context, OodFrame, Queries},
    BatchingMethod, FieldExtension, ProofOptions, TraceInfo,
};
use winter_fri::FriProof;
use winter_math::{fields::{f128, f62, f64}, StarkField, ToElements};
use winter_utils::{ByteReader, Deserializable, Serializable, SliceReader};

use crate::c26::err_str;
use crate::out::Out;
use crate::rng::{hex, Rng};

#[derive(Clone, Debug)]
struct Ti { main: usize, aux: usize, rands: usize, length: usize, meta: Vec<u8> }
#[derive(Clone, Debug)]
struct Po { q: usize, b: usize, g: u32, e: u8, f: usize, rd: usize, bc: u8, bd: u8, np: usize, hr: usize }

fn ext_of(e: u8) -> FieldExtension { match e { 1 => FieldExtension::None, 2 => FieldExtension::Quadratic, _ => FieldExtension::Cubic } }
fn bm_of(b: u8) -> BatchingMethod { match b { 0 => BatchingMethod::Linear, 1 => BatchingMethod::Algebraic, _ => BatchingMethod::Horner } }

impl Ti {
    fn build(&self) -> TraceInfo { TraceInfo::new_multi_segment(self.main, self.aux, self.rands, self.length, self.meta.clone()) }
    fn show(&self) -> String { format!("{} {} {} {} {}", self.main, self.aux, self.rands, self.length, hex(&self.meta)) }
}
impl Po {
    fn build(&self) -> ProofOptions {
        ProofOptions::new(self.q, self.b, self.g, ext_of(self.e), self.f, self.rd, bm_of(self.bc), bm_of(self.bd)).with_partitions(self.np, self.hr)
    }
    fn show(&self) -> String { format!("{} {} {} {} {} {} {} {} {} {}", self.q, self.b, self.g, self.e, self.f, self.rd, self.bc, self.bd, self.np, self.hr) }
}

fn gen_ti(rng: &mut Rng, max_log: u64) -> Ti {
    let main = *rng.pick(&[1usize, 1, 2, 7, 20, 127, 128, 200, 254, 255]);
    let room = 255 - main;
    let aux = if room == 0 { 0 } else { match rng.below(4) { 0 => 0, 1 => room, 2 => 1, _ => rng.below(room as u64 + 1) as usize } };
    let rands = if aux == 0 { 0 } else { *rng.pick(&[0usize, 1, 2, 12, 254, 255]) };
    let length = 1usize << rng.range(3, max_log);
    let mlen = *rng.pick(&[0usize, 0, 1, 2, 6, 7, 8, 14, 15, 16, 17, 30, 255, 256, 65535]);
    let mut meta = rng.bytes(mlen);
    if mlen > 0 && rng.chance(1, 2) { let l = meta.len(); meta[l - 1] = 0; }
    if mlen > 1 && rng.chance(1, 4) { let l = meta.len(); meta[l - 2] = 0; }
    Ti { main, aux, rands, length, meta }
}

fn gen_po(rng: &mut Rng) -> Po {
    Po {
        q: *rng.pick(&[1usize, 2, 27, 30, 128, 254, 255]),
        b: 1 << rng.range(1, 7),
        g: *rng.pick(&[0u32, 1, 16, 20, 31, 32]),
        e: rng.range(1, 3) as u8,
        f: 1 << rng.range(1, 4),
        rd: (1 << rng.range(0, 8)) - 1,
        bc: rng.below(3) as u8,
        bd: rng.below(3) as u8,
        np: *rng.pick(&[1usize, 1, 2, 4, 15, 16]),
        hr: *rng.pick(&[1usize, 1, 4, 8, 12, 254, 255]),
    }
}

fn dec_show<T: Deserializable>(bytes: &[u8], show: impl Fn(&T) -> String) -> String {
    let mut r = SliceReader::new(bytes);
    match T::read_from(&mut r) {
        Ok(v) => {
            let mut left = 0;
            while r.read_u8().is_ok() { left += 1; }
            format!("ok {} {}", show(&v), bytes.len() - left)
        },
        Err(e) => format!("err {}", err_str(&e)),
    }
}

fn show_ti(t: &TraceInfo) -> String {
    format!("{} {} {} {} {}", t.main_trace_width(), t.aux_segment_width(), t.get_num_aux_segment_rand_elements(), t.length(), hex(t.meta()))
}
fn show_po(o: &ProofOptions) -> String {
    // ProofOptions exposes most fields through accessors; the rest through its own encoding
    let b = o.to_bytes();
    format!("{} {} {} {} {} {} {} {} {} {}", b[0], b[1], b[2], b[3], b[4], b[5], b[6], b[7], b[8], b[9])
}
fn show_ctx(c: &Context) -> String {
    format!("{} {} {} {}", show_ti(c.trace_info()), hex(c.field_modulus_bytes()), show_po(c.options()), c.num_constraints())
}

fn elems<E: StarkField>(v: Vec<E>) -> String where E::PositiveInteger: core::fmt::Display {
    v.iter().map(|e| format!("{}", e.as_int())).collect::<Vec<_>>().join(",")
}

/// mutations of an honest encoding: truncation, single-byte edits (front-biased), insertion
fn mutate(rng: &mut Rng, bytes: &[u8]) -> Vec<u8> {
    let mut m = bytes.to_vec();
    match rng.below(5) {
        0 => { let c = rng.below(m.len() as u64 + 1) as usize; m.truncate(c); },
        1 | 2 => { if !m.is_empty() { let i = if rng.chance(2, 3) { rng.below(m.len().min(24) as u64) as usize } else { rng.below(m.len() as u64) as usize };
            m[i] = match rng.below(5) { 0 => 0, 1 => 0xff, 2 => m[i].wrapping_add(1), 3 => m[i] ^ (1 << rng.below(8)), _ => rng.next() as u8 }; } },
        3 => { let i = rng.below(m.len() as u64 + 1) as usize; m.insert(i, rng.next() as u8); },
        _ => { m.extend(rng.bytes(3)); },
    }
    m
}

/// C24: pairs of valid contexts that differ in exactly one listed parameter must have different
/// seed element vectors
fn seed_pairs(rng: &mut Rng, out: &mut Out, n: usize) {
    type B = f64::BaseElement;
    let modhex = hex(&B::get_modulus_le_bytes());
    for it in 0..n {
        let mut ti = gen_ti(rng, 20);
        ti.meta.truncate(*rng.pick(&[0usize, 1, 6, 7, 8, 13, 14, 15]));
        let po = gen_po(rng);
        let nc = rng.range(1, 1000) as usize;
        let (mut ti2, mut po2, mut nc2) = (ti.clone(), po.clone(), nc);
        let what = match it % 14 {
            0 => { ti2.main = if ti.main > 1 { ti.main - 1 } else { 2.min(255 - ti.aux) }; "main" },
            1 => { if ti.aux > 0 { ti2.aux = ti.aux - 1; if ti2.aux == 0 { ti2.rands = 0; } } else if ti.main < 255 { ti2.aux = 1; } "aux" },
            2 => { if ti.aux > 0 { ti2.rands = (ti.rands + 1) % 256; } else { nc2 += 1; } "rands" },
            3 => { ti2.length = if ti.length > 8 { ti.length / 2 } else { 16 }; "length" },
            4 => { nc2 = nc + 1; "constraints" },
            5 => { po2.e = po.e % 3 + 1; "extension" },
            6 => { po2.b = if po.b > 2 { po.b / 2 } else { 4 }; "blowup" },
            7 => { po2.f = if po.f > 2 { po.f / 2 } else { 4 }; "folding" },
            8 => { po2.rd = if po.rd > 0 { po.rd / 2 } else { 1 }; "remainder" },
            9 => { po2.g = (po.g + 1) % 33; "grinding" },
            10 => { po2.q = po.q % 255 + 1; "queries" },
            11 => { ti2.meta.push(0); "meta-trailing-zero" },
            12 => { ti2.meta.push(1); "meta-longer" },
            _ => { if ti2.meta.is_empty() { ti2.meta.push(0) } else { let l = ti2.meta.len(); ti2.meta[l - 1] ^= 1; } "meta-byte" },
        };
        let same = ti.show() == ti2.show() && po.show() == po2.show() && nc == nc2;
        let c1 = Context::new::<B>(ti.build(), po.build(), nc);
        let c2 = Context::new::<B>(ti2.build(), po2.build(), nc2);
        out.count(&format!("seedpair:{what}"));
        // metadata extended by a zero byte inside the same 7-byte chunk: the recorded finding's class
        let op = if what == "meta-trailing-zero" && ti.meta.len() % 7 != 0 { "ctx_distinct_metazero" } else { "ctx_distinct" };
        out.case(&format!("obj {op} 8 {} {modhex} {} {nc} {} {modhex} {} {nc2}", ti.show(), po.show(), ti2.show(), po2.show()),
            if same { "collision" } else { "distinct" },
            || if ToElements::<B>::to_elements(&c1) == ToElements::<B>::to_elements(&c2) { "collision".into() } else { "distinct".into() });
    }
    // the minimal metadata witness (recorded finding)
    for (m1, m2) in [(vec![1u8], vec![1u8, 0])] {
        let t1 = Ti { main: 1, aux: 0, rands: 0, length: 8, meta: m1 };
        let t2 = Ti { main: 1, aux: 0, rands: 0, length: 8, meta: m2 };
        let po = Po { q: 1, b: 2, g: 0, e: 1, f: 2, rd: 0, bc: 0, bd: 0, np: 1, hr: 1 };
        let c1 = Context::new::<B>(t1.build(), po.build(), 1);
        let c2 = Context::new::<B>(t2.build(), po.build(), 1);
        out.case(&format!("obj ctx_distinct_metazero 8 {} {modhex} {} 1 {} {modhex} {} 1", t1.show(), po.show(), t2.show(), po.show()), "distinct",
            || if ToElements::<B>::to_elements(&c1) == ToElements::<B>::to_elements(&c2) { "collision".into() } else { "distinct".into() });
    }
}

fn returns<T>(f: impl FnOnce() -> T) -> String {
    match std::panic::catch_unwind(std::panic::AssertUnwindSafe(f)) { Ok(_) => "ok".into(), Err(_) => "panic".into() }
}

/// which argument values do the constructors accept?  The theorems of C24 / C07 hold on the model's
/// `Valid` contexts; `newOk` (= `Valid`, proved) must coincide with what can really be constructed,
/// so every boundary of every assertion is probed from both sides.
fn ctor_probes(rng: &mut Rng, out: &mut Out, n: usize) {
    let lengths: Vec<usize> = vec![0, 1, 4, 7, 8, 9, 12, 16, 1 << 31, (1 << 31) + 1, 1 << 32, 1 << 63, (1 << 63) + 1, usize::MAX];
    for &main in &[0usize, 1, 2, 254, 255, 256] {
        for &aux in &[0usize, 1, 253, 254, 255, 256] {
            for &rands in &[0usize, 1, 255, 256, 257, 300, 511, 65536] {
                for &length in &lengths {
                    out.count("ctor:ti");
                    out.case(&format!("obj ti_new {main} {aux} {rands} {length} 0"), "-",
                        || returns(|| TraceInfo::new_multi_segment(main, aux, rands, length, vec![])));
                }
            }
        }
    }
    for &ml in &[1usize, 65534, 65535, 65536, 65537] {
        for &(main, aux, rands) in &[(1usize, 0usize, 0usize), (20, 9, 12), (1, 254, 255), (1, 1, 256)] {
            out.case(&format!("obj ti_new {main} {aux} {rands} 64 {ml}"), "-",
                || returns(|| TraceInfo::new_multi_segment(main, aux, rands, 64, vec![0u8; ml])));
        }
    }
    // ProofOptions: one argument at a time around its bounds, from a valid base; then random mixes
    let base = Po { q: 27, b: 8, g: 16, e: 1, f: 4, rd: 7, bc: 0, bd: 1, np: 1, hr: 1 };
    let axes: Vec<(usize, Vec<usize>)> = vec![
        (0, vec![0, 1, 2, 254, 255, 256, 257, 1000]),
        (1, vec![0, 1, 2, 3, 4, 6, 64, 96, 128, 129, 256]),
        (2, vec![0, 1, 31, 32, 33, 64, 255, 256]),
        (4, vec![0, 1, 2, 3, 4, 8, 12, 16, 17, 32]),
        (5, vec![0, 1, 2, 3, 4, 7, 8, 15, 127, 128, 255, 256, 511]),
        (8, vec![0, 1, 2, 15, 16, 17, 255, 256]),
        (9, vec![0, 1, 2, 254, 255, 256, 257, 512]),
    ];
    let set = |p: &mut Po, axis: usize, v: usize| match axis {
        0 => p.q = v, 1 => p.b = v, 2 => p.g = v as u32, 4 => p.f = v, 5 => p.rd = v, 8 => p.np = v, _ => p.hr = v,
    };
    let mut pos: Vec<Po> = Vec::new();
    for (axis, vals) in &axes { for &v in vals { let mut p = base.clone(); set(&mut p, *axis, v); pos.push(p); } }
    for _ in 0..n {
        let mut p = gen_po(rng);
        for _ in 0..rng.range(1, 2) {
            let (axis, vals) = rng.pick(&axes).clone();
            set(&mut p, axis, *rng.pick(&vals));
        }
        pos.push(p);
    }
    for p in pos {
        out.count("ctor:po");
        out.case(&format!("obj po_new {}", p.show()), "-", || returns(|| p.build()));
    }
    // Context::new: trace length, LDE domain size and constraint count limits
    for &len in &[8usize, 1 << 24, 1 << 25, 1 << 30, 1 << 31, 1 << 32, 1 << 33] {
        for &blowup in &[2usize, 4, 64, 128] {
            for &nc in &[0usize, 1, u32::MAX as usize - 1, u32::MAX as usize, u32::MAX as usize + 1] {
                out.count("ctor:ctx");
                out.case(&format!("obj ctx_new {len} {blowup} {nc}"), "-", || returns(|| {
                    let po = ProofOptions::new(1, blowup, 0, FieldExtension::None, 2, 0, BatchingMethod::Linear, BatchingMethod::Linear);
                    Context::new::<f64::BaseElement>(TraceInfo::new(1, len), po, nc)
                }));
            }
        }
    }
}

pub fn run_seed(rng: &mut Rng, out: &mut Out, n: usize) {
    seed_pairs(rng, out, n);
    ctor_probes(rng, out, core::cmp::max(20, n / 4));
}

/// batch Merkle proofs and digests (listed component types of C07): every proof `prove_batch`
/// produces — all index sets of small trees, single leaves, sibling pairs, random sets of larger
/// trees, with a byte hasher and with Rescue — decodes from its own encoding to an equal value with
/// nothing left over and still verifies; digests round-trip.
fn merkle_roundtrips(rng: &mut Rng, out: &mut Out, n: usize) {
    use winter_crypto::{hashers::{Blake3_192, Blake3_256, Rp64_256}, BatchMerkleProof, Digest, Hasher, MerkleTree};
    fn one<H: Hasher>(out: &mut Out, hname: &str, depth: u32, idx: &[usize], leaves: &[H::Digest]) {
        let tree = MerkleTree::<H>::new(leaves.to_vec()).unwrap();
        let Ok((lv, proof)) = tree.prove_batch(idx) else { return };
        let root = *tree.root();
        let idx = idx.to_vec();
        let shown = idx.iter().map(|i| i.to_string()).collect::<Vec<_>>().join(",");
        let lv2: Vec<H::Digest> = lv.iter().take(2).cloned().collect();
        out.count(&format!("bmp:{hname}:{}", if idx.len() == 1 { "single-leaf" } else { "multi" }));
        out.case(&format!("obj bmp_rt {hname} {depth} {shown}"), "ok-equal-verifies", move || {
            let bytes = proof.to_bytes();
            let mut r = SliceReader::new(&bytes);
            match BatchMerkleProof::<H>::read_from(&mut r) {
                Err(e) => format!("decode-error {}", err_str(&e)),
                Ok(p2) => {
                    if r.has_more_bytes() { return "bytes-left-over".into(); }
                    if p2.to_bytes() != bytes { return "decoded-differs".into(); }
                    match MerkleTree::<H>::verify_batch(&root, &idx, &lv, &p2) { Ok(()) => "ok-equal-verifies".into(), Err(_) => "decoded-does-not-verify".into() }
                },
            }
        });
        for d in lv2 {
            out.case(&format!("obj digest_rt {hname} {}", hex(&d.as_bytes())), "ok", move || {
                let b = d.to_bytes();
                let mut r = SliceReader::new(&b);
                match H::Digest::read_from(&mut r) { Ok(d2) if d2 == d && !r.has_more_bytes() => "ok".into(), Ok(_) => "differs-or-left-over".into(), Err(e) => format!("decode-error {}", err_str(&e)) }
            });
        }
    }
    fn leaves_of<H: Hasher>(rng: &mut Rng, n: usize) -> Vec<H::Digest> { (0..n).map(|_| H::hash(&rng.bytes(9))).collect() }
    // every non-empty index subset of trees with 2 and 4 leaves, every single leaf and sibling pair up to 64 leaves
    for depth in 1..=6u32 {
        let nl = 1usize << depth;
        let l3 = leaves_of::<Blake3_256<f64::BaseElement>>(rng, nl);
        let lr = leaves_of::<Rp64_256>(rng, nl);
        let l2 = leaves_of::<Blake3_192<f64::BaseElement>>(rng, nl);
        let mut sets: Vec<Vec<usize>> = Vec::new();
        if nl <= 4 { for m in 1..(1usize << nl) { sets.push((0..nl).filter(|i| m >> i & 1 == 1).collect()); } }
        for i in 0..nl { sets.push(vec![i]); if i % 2 == 0 { sets.push(vec![i, i + 1]); sets.push(vec![i + 1, i]); } }
        sets.push((0..nl).collect());
        for _ in 0..n { let k = 1 + rng.below(nl.min(12) as u64) as usize; let mut s: Vec<usize> = (0..k).map(|_| rng.below(nl as u64) as usize).collect(); s.sort(); s.dedup(); if rng.chance(1, 3) { s.reverse(); } sets.push(s); }
        for s in &sets {
            one::<Blake3_256<f64::BaseElement>>(out, "b3", depth, s, &l3);
            if s.len() <= 2 || rng.chance(1, 3) { one::<Rp64_256>(out, "rp64", depth, s, &lr); one::<Blake3_192<f64::BaseElement>>(out, "b192", depth, s, &l2); }
        }
    }
}

pub fn run(rng: &mut Rng, out: &mut Out, n: usize) {
    ctor_probes(rng, out, core::cmp::max(20, n / 4));
    merkle_roundtrips(rng, out, core::cmp::max(4, n / 20));
    for it in 0..n {
        // ---------------- TraceInfo ----------------
        let ti = gen_ti(rng, if it % 3 == 0 { 62 } else { 31 });
        let t = ti.build();
        let enc = t.to_bytes();
        out.count(&format!("ti:width{}", if ti.main + ti.aux == 255 { "=255" } else { "<255" }));
        out.count(&format!("ti:meta{}", match ti.meta.len() { 0 => "=0", 65535 => "=65535", _ => "" }));
        out.case(&format!("obj ti_enc {}", ti.show()), "-", || hex(&t.to_bytes()));
        out.case(&format!("obj ti_dec {}", hex(&enc)), &format!("ok {} {}", ti.show(), enc.len()), || dec_show::<TraceInfo>(&enc, show_ti));
        for _ in 0..3 {
            let m = mutate(rng, &enc);
            if m.len() < 600 { out.case(&format!("obj ti_dec {}", hex(&m)), "~^(ok|err) ", || dec_show::<TraceInfo>(&m, show_ti)); }
        }
        let rl = rng.below(10) as usize;
        let r = rng.bytes(rl);
        out.case(&format!("obj ti_dec {}", hex(&r)), "~^(ok|err) ", || dec_show::<TraceInfo>(&r, show_ti));
        if ti.length <= u32::MAX as usize && ti.meta.len() <= 64 {
            out.case(&format!("obj ti_elems 8 {}", ti.show()), "-", || elems::<f64::BaseElement>(t.to_elements()));
            out.case(&format!("obj ti_elems 16 {}", ti.show()), "-", || elems::<f128::BaseElement>(t.to_elements()));
        }
        // ---------------- ProofOptions ----------------
        let po = gen_po(rng);
        let o = po.build();
        let oenc = o.to_bytes();
        out.case(&format!("obj po_enc {}", po.show()), "-", || hex(&o.to_bytes()));
        out.case(&format!("obj po_dec {}", hex(&oenc)), &format!("ok {} 10", po.show()), || dec_show::<ProofOptions>(&oenc, show_po));
        out.case(&format!("obj po_elems {}", po.show()), "-", || elems::<f64::BaseElement>(o.to_elements()));
        for _ in 0..4 {
            let m = mutate(rng, &oenc);
            out.count("po:mutated");
            out.case(&format!("obj po_dec {}", hex(&m)), "~^(ok|err) ", || dec_show::<ProofOptions>(&m, show_po));
        }
        let r = rng.bytes(10);
        out.case(&format!("obj po_dec {}", hex(&r)), "~^(ok|err) ", || dec_show::<ProofOptions>(&r, show_po));
        // ---------------- Context ----------------
        let mut cti = gen_ti(rng, 24);
        if cti.meta.len() > 300 { cti.meta.truncate(20); }
        let ct = cti.build();
        let nc = *rng.pick(&[1usize, 2, 128, 65535, 65536, u32::MAX as usize]);
        let (ctx, eb, modhex) = match rng.below(3) {
            0 => (Context::new::<f64::BaseElement>(ct.clone(), o.clone(), nc), 8, hex(&f64::BaseElement::get_modulus_le_bytes())),
            1 => (Context::new::<f62::BaseElement>(ct.clone(), o.clone(), nc), 8, hex(&f62::BaseElement::get_modulus_le_bytes())),
            _ => (Context::new::<f128::BaseElement>(ct.clone(), o.clone(), nc), 16, hex(&f128::BaseElement::get_modulus_le_bytes())),
        };
        let cshow = format!("{} {} {} {}", cti.show(), modhex, po.show(), nc);
        let cenc = ctx.to_bytes();
        out.case(&format!("obj ctx_enc {cshow}"), "-", || hex(&ctx.to_bytes()));
        out.case(&format!("obj ctx_dec {}", hex(&cenc)), &format!("ok {cshow} {}", cenc.len()), || dec_show::<Context>(&cenc, show_ctx));
        if eb == 8 && modhex.starts_with("01000000ffffffff") {
            out.case(&format!("obj ctx_elems 8 {cshow}"), "-", || elems::<f64::BaseElement>(ctx.to_elements()));
        } else if eb == 16 {
            out.case(&format!("obj ctx_elems 16 {cshow}"), "-", || elems::<f128::BaseElement>(ctx.to_elements()));
        } else {
            out.case(&format!("obj ctx_elems 8 {cshow}"), "-", || elems::<f62::BaseElement>(ctx.to_elements()));
        }
        for _ in 0..3 {
            let m = mutate(rng, &cenc);
            out.case(&format!("obj ctx_dec {}", hex(&m)), "~^(ok|err) ", || dec_show::<Context>(&m, show_ctx));
        }
        // ---------------- byte containers ----------------
        let gen_blob = |rng: &mut Rng| -> Vec<u8> { let l = *rng.pick(&[0usize, 1, 2, 31, 32, 33, 64, 255, 256, 300]); rng.bytes(l) };
        let le = |v: usize, w: usize| -> Vec<u8> { (v as u64).to_le_bytes()[..w].to_vec() };
        let (a, b) = (gen_blob(rng), gen_blob(rng));
        // Commitments: u16 len + bytes
        let mut c = le(a.len(), 2); c.extend(&a);
        let exp = format!("ok {} {}", hex(&c), c.len());
        out.case(&format!("obj comm_dec {}", hex(&c)), &exp, || dec_show::<Commitments>(&c, |v| hex(&v.to_bytes())));
        let cm = mutate(rng, &c);
        out.case(&format!("obj comm_dec {}", hex(&cm)), "~^(ok|err) ", || dec_show::<Commitments>(&cm, |v| hex(&v.to_bytes())));
        // OodFrame: two u16-prefixed strings
        let mut f = le(a.len(), 2); f.extend(&a); f.extend(le(b.len(), 2)); f.extend(&b);
        let exp = format!("ok {} {}", hex(&f), f.len());
        out.case(&format!("obj ood_dec {}", hex(&f)), &exp, || dec_show::<OodFrame>(&f, |v| hex(&v.to_bytes())));
        let fm = mutate(rng, &f);
        out.case(&format!("obj ood_dec {}", hex(&fm)), "~^(ok|err) ", || dec_show::<OodFrame>(&fm, |v| hex(&v.to_bytes())));
        // Queries: two Vec<u8> (vint64 length)
        let mut q = a.len().to_bytes(); q.extend(&a); q.extend(b.len().to_bytes()); q.extend(&b);
        let exp = format!("ok {} {}", hex(&q), q.len());
        out.case(&format!("obj queries_dec {}", hex(&q)), &exp, || dec_show::<Queries>(&q, |v| hex(&v.to_bytes())));
        let qm = mutate(rng, &q);
        out.case(&format!("obj queries_dec {}", hex(&qm)), "~^(ok|err) ", || dec_show::<Queries>(&qm, |v| hex(&v.to_bytes())));
        // FriProof: u8 layer count, layers (u32 len values [non-empty], u32 len paths), u16 remainder, u8 partitions
        let nl = rng.below(4) as usize;
        let mut fp = vec![nl as u8];
        for _ in 0..nl {
            let (mut v, p) = (gen_blob(rng), gen_blob(rng));
            if v.is_empty() { v.push(7); }
            fp.extend(le(v.len(), 4)); fp.extend(&v); fp.extend(le(p.len(), 4)); fp.extend(&p);
        }
        // partition exponent: `FriProof::new` stores trailing_zeros of a power-of-two usize (0..=63);
        // `read_from` rejects anything else since fix 2a4d57e
        let parts = rng.next() as u8;
        fp.extend(le(b.len(), 2)); fp.extend(&b); fp.push(parts);
        let exp = if parts < 64 { format!("ok {} {}", hex(&fp), fp.len()) } else { "err invalid".to_string() };
        out.count(if parts < 64 { "fri:partitions<64" } else { "fri:partitions>=64-rejected" });
        out.case(&format!("obj fri_dec {}", hex(&fp)), &exp, || dec_show::<FriProof>(&fp, |v| hex(&v.to_bytes())));
        for _ in 0..2 {
            let m = mutate(rng, &fp);
            out.case(&format!("obj fri_dec {}", hex(&m)), "~^(ok|err) ", || dec_show::<FriProof>(&m, |v| hex(&v.to_bytes())));
        }
    }
}
