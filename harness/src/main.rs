//! `wfh <family> <seed> <n> <outdir>`: runs the real winterfell crates on generated inputs.
//! Writes `<outdir>/<family>.qa` (Q/A line pairs, see `out.rs`) and `<outdir>/<family>.stats.json`.
mod c10;
mod c11;
mod c14;
mod c21;
mod c26;
mod c27;
mod obj;
mod out;
mod rng;

fn main() {
    let args: Vec<String> = std::env::args().collect();
    if args.len() < 5 {
        eprintln!("usage: wfh <family> <seed> <n> <outdir>");
        std::process::exit(2);
    }
    let fam = args[1].as_str();
    let seed: u64 = args[2].parse().expect("seed");
    let n: usize = args[3].parse().expect("n");
    let outdir = &args[4];
    // silence panic messages of caught panics (they are reported as `abort` answers)
    std::panic::set_hook(Box::new(|_| {}));
    let mut rng = rng::Rng::new(seed ^ fam.bytes().fold(0u64, |a, b| a.wrapping_mul(131).wrapping_add(b as u64)));
    let mut out = out::Out::new(&format!("{outdir}/{fam}.qa"));
    match fam {
        "c10" => c10::run(&mut rng, &mut out, n),
        "c11" => c11::run(&mut rng, &mut out, n),
        "c14" => c14::run(&mut rng, &mut out, n),
        "c21" => c21::run(&mut rng, &mut out, n),
        "c26" => c26::run(&mut rng, &mut out, n),
        "obj" => obj::run(&mut rng, &mut out, n),
        "objseed" => obj::run_seed(&mut rng, &mut out, n),
        "c27" => c27::run(&mut rng, &mut out, n),
        "c27x" => c27::run_exhaustive(&mut out, n),
        _ => {
            eprintln!("unknown family {fam}");
            std::process::exit(2);
        },
    }
    out.finish(&format!("{outdir}/{fam}.stats.json"));
}
