//! `wfh <family> <seed> <n> <outdir>`: runs the real winterfell crates on generated inputs.
//! Writes `<outdir>/<family>.qa` (Q/A line pairs, see `out.rs`) and `<outdir>/<family>.stats.json`.
mod c06b;
mod c08;
mod c10;
mod c11;
mod c12;
mod c13;
mod c14;
mod c15;
mod c16;
mod c18;
mod c20;
mod c21;
mod c22;
mod c23;
mod c25;
mod c26;
mod c27;
mod c28;
mod c29;
mod genair;
mod obj;
mod out;
mod protocol;
mod rng;
mod tamper;
mod vmodel;

fn main() {
    let args: Vec<String> = std::env::args().collect();
    if args.len() < 5 {
        eprintln!("usage: wfh <family> <seed> <n> <outdir>");
        std::process::exit(2);
    }
    let fam = args[1].as_str();
    let seed: u64 = args[2].parse().expect("seed");
    let n: usize = args[3].parse().expect("n");
    let outdir = &args[4];
    // silence panic messages of caught panics (they are reported as `abort` answers)
    std::panic::set_hook(Box::new(|_| {}));
    let mut rng = rng::Rng::new(seed ^ fam.bytes().fold(0u64, |a, b| a.wrapping_mul(131).wrapping_add(b as u64)));
    let mut out = out::Out::new(&format!("{outdir}/{fam}.qa"));
    match fam {
        "c08" => c08::run(&mut rng, &mut out, n),
        "c09" => c08::run_c09(&mut rng, &mut out, n),
        "c10" => c10::run(&mut rng, &mut out, n),
        "c11" => c11::run(&mut rng, &mut out, n),
        "c12" => c12::run(&mut rng, &mut out, n),
        "c13" => c13::run(&mut rng, &mut out, n),
        "c14" => c14::run(&mut rng, &mut out, n),
        "c15" => c15::run(&mut rng, &mut out, n),
        "c16" => c16::run(&mut rng, &mut out, n),
        "c17" => c15::run_c17(&mut rng, &mut out, n),
        "c18" => c18::run(&mut rng, &mut out, n),
        "c20" => c20::run(&mut rng, &mut out, n),
        "c19" => c18::run_c19(&mut rng, &mut out, n),
        "c21" => c21::run(&mut rng, &mut out, n),
        "c22" => c22::run(&mut rng, &mut out, n),
        "c23" => c23::run(&mut rng, &mut out, n),
        "c25" => c25::run(&mut rng, &mut out, n),
        "c26" => c26::run(&mut rng, &mut out, n),
        "obj" => obj::run(&mut rng, &mut out, n),
        "c01" => protocol::run_c01(&mut rng, &mut out, n),
        "c22p" => protocol::run_large_assertions(&mut rng, &mut out, n),
        "c02c" => protocol::run_coefficients(&mut rng, &mut out, n),
        "c02" => protocol::run_c02(&mut rng, &mut out, n),
        "c03" => tamper::run_c03(&mut rng, &mut out, n),
        "c03t" => tamper::run_c03t(&mut rng, &mut out, n),
        "c04" => tamper::run_c04(&mut rng, &mut out, n),
        "c05" => tamper::run_c05(&mut rng, &mut out, n),
        "c06" => tamper::run_c06(&mut rng, &mut out, n),
        "c06b" => c06b::run(&mut rng, &mut out, n),
        "c06c" => c06b::run_comb(&mut rng, &mut out, n),
        "objseed" => obj::run_seed(&mut rng, &mut out, n),
        "c27" => c27::run(&mut rng, &mut out, n),
        "c27x" => c27::run_exhaustive(&mut out, n),
        "c28" => c28::run(&mut rng, &mut out, n),
        "c29" => c29::run(&mut rng, &mut out, n),
        "c29t" => c29::run_table(&mut rng, &mut out, n),
        "vfy" => vmodel::run(&mut rng, &mut out, n),
        "vfy4" => vmodel::run_c04(&mut rng, &mut out, n),
        "vfy3" => vmodel::run_c03(&mut rng, &mut out, n),
        "vfyx" => vmodel::run_x(&mut rng, &mut out, n),
        _ => {
            eprintln!("unknown family {fam}");
            std::process::exit(2);
        },
    }
    out.finish(&format!("{outdir}/{fam}.stats.json"));
}
