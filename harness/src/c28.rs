//! C28: trace / composition LDEs (`RowMatrix::evaluate_polys(_over)`, `ColMatrix::
//! {interpolate_columns, evaluate_columns_over}`) and row commitments (`commit_to_rows` vs the
//! verifier's `hash_row` rule) of `winter_prover::matrix`.
//! Implementation: the real `RowMatrix` / `ColMatrix` / `StarkDomain` / `PartitionOptions` /
//! `MerkleTree` over f64, f128 and QuadExtension<f64> columns.
//! Oracles (independent of the implementation): naive Horner evaluation of every column polynomial
//! at offset * g^r in c10's canonical modular arithmetic (all rows when the domain is small, the
//! sampled rows otherwise); "interpolate, then evaluate over the un-shifted domain" = the trace;
//! the Merkle root over per-row digests recomputed by the VERIFIER's documented rule (partition
//! size re-implemented here with plain integer arithmetic, `hash_elements` per chunk, then
//! `merge_many`) must equal the prover's commitment, for a test hasher (`ToyE`, re-implemented in
//! lean/Wf/Drv/Lde.lean, so the model recomputes digests and root) and for Blake3_256 / Rp64_256
//! (the model answers with the partition layout and its own prover = verifier verdict).
//! Columns travel as an LCG seed (same generator in the Lean driver).
use std::marker::PhantomData;

use winter_air::{
    Air, AirContext, Assertion, BatchingMethod, EvaluationFrame, FieldExtension, PartitionOptions,
    ProofOptions, TraceInfo, TransitionConstraintDegree,
};
use winter_crypto::{
    hashers::{Blake3_256, Rp64_256},
    ElementHasher, Hasher, MerkleTree,
};
use winter_math::{
    fft,
    fields::{f128, f64, CubeExtension, QuadExtension},
    FieldElement, StarkField,
};
use winter_prover::{
    matrix::{ColMatrix, RowMatrix},
    StarkDomain,
};

use crate::c10::{mulmod, o_add, o_mul, show, spec, Fld, Spec};
use crate::c18::{Toy, TD};
use crate::genair::BF;
use crate::out::Out;
use crate::rng::Rng;

type El = Vec<u128>;

// ---------------------------------------------------------------------------------------------
// shared with the Lean driver: column generation, FNV digest, test hasher
// ---------------------------------------------------------------------------------------------
fn lcg_next(s: u64) -> u64 { s.wrapping_mul(6364136223846793005).wrapping_add(1442695040888963407) }
fn lcg_coord(p: u128, s: &mut u64) -> u128 {
    *s = lcg_next(*s);
    let hi = *s as u128;
    *s = lcg_next(*s);
    ((hi << 64) | *s as u128) % p
}
fn lcg_vec(s: &Spec, len: usize, m: usize, seed: u64) -> Vec<El> {
    let mut st = seed;
    let mut out = Vec::with_capacity(len);
    for i in 0..len {
        if i < m {
            let mut e: El = (0..s.deg).map(|_| lcg_coord(s.p, &mut st)).collect();
            if i + 1 == m && e.iter().all(|&x| x == 0) { e[0] = 1; }
            out.push(e);
        } else {
            out.push(vec![0; s.deg]);
        }
    }
    out
}
fn boundary_col(s: &Spec, n: usize, seed: u64) -> Vec<El> {
    let mut st = seed;
    (0..n).map(|_| (0..s.deg).map(|_| {
        st = lcg_next(st);
        match (st >> 33) % 4 { 0 => 0, 1 => 1, 2 => s.p - 1, _ => (s.p - 1) / 2 }
    }).collect()).collect()
}
fn col_seed(seed: u64, j: usize) -> u64 { seed.wrapping_add((j as u64).wrapping_mul(0x9E3779B97F4A7C15)) }
fn gen_col(s: &Spec, n: usize, kind: u64, seed: u64) -> Vec<El> {
    match kind {
        0 => lcg_vec(s, n, n, seed),
        1 => lcg_vec(s, n, (seed % (n as u64 + 1)) as usize, seed),
        _ => boundary_col(s, n, seed),
    }
}
fn gen_matrix(s: &Spec, kind: u64, ncols: usize, n: usize, seed: u64) -> Vec<Vec<El>> {
    (0..ncols).map(|j| gen_col(s, n, kind, col_seed(seed, j))).collect()
}

fn show_matrix(rows: &[Vec<El>], row_width: usize, sel: &[usize]) -> String {
    let cols = rows.first().map(|r| r.len()).unwrap_or(0);
    let mut h: u64 = 0xcbf29ce484222325;
    for r in rows { for e in r { for &c in e {
        h = (h ^ (c as u64)).wrapping_mul(0x100000001b3);
        h = (h ^ ((c >> 64) as u64)).wrapping_mul(0x100000001b3);
    } } }
    let picked: Vec<String> = sel.iter().map(|&i| rows[i].iter().map(|e| show(e)).collect::<Vec<_>>().join(";")).collect();
    let ps = if picked.is_empty() { "-".to_string() } else { picked.join("/") };
    format!("{}x{}:w{}:{}:h{}", rows.len(), cols, row_width, ps, h)
}
fn show_sel(sel: &[usize]) -> String {
    if sel.is_empty() { "-".into() } else { sel.iter().map(|i| i.to_string()).collect::<Vec<_>>().join(",") }
}

/// test element hasher: c18's `Toy` (FNV-style fold) + `hash_elements` = `Toy::hash` of the
/// canonical little-endian bytes of all coordinates
pub struct ToyE<B>(PhantomData<B>);
impl<B: StarkField> Hasher for ToyE<B> {
    type Digest = TD;
    const COLLISION_RESISTANCE: u32 = 0;
    fn hash(bytes: &[u8]) -> TD { Toy::hash(bytes) }
    fn merge(values: &[TD; 2]) -> TD { Toy::merge(values) }
    fn merge_many(values: &[TD]) -> TD { Toy::merge_many(values) }
    fn merge_with_int(seed: TD, value: u64) -> TD { Toy::merge_with_int(seed, value) }
}
impl<B: StarkField> ElementHasher for ToyE<B> {
    type BaseField = B;
    fn hash_elements<E: FieldElement<BaseField = B>>(elements: &[E]) -> TD {
        let mut v = Vec::new();
        for e in elements { v.extend_from_slice(&winter_utils::Serializable::to_bytes(e)); }
        Toy::hash(&v)
    }
}
fn show_td(d: &TD) -> String { format!("{}.{}.{}.{}", d.0[0], d.0[1], d.0[2], d.0[3]) }

// ---------------------------------------------------------------------------------------------
// oracles
// ---------------------------------------------------------------------------------------------
fn embed(s: &Spec, x: u128) -> El { let mut v = vec![0; s.deg]; v[0] = x; v }
fn horner(s: &Spec, coeffs: &[El], x: u128) -> El {
    let xe = embed(s, x);
    let mut acc = vec![0u128; s.deg];
    for c in coeffs.iter().rev() { acc = o_add(s, &o_mul(s, &acc, &xe), c); }
    acc
}
fn powmod(b: u128, mut e: u128, p: u128) -> u128 {
    let (mut r, mut x) = (1u128 % p, b % p);
    while e > 0 { if e & 1 == 1 { r = mulmod(r, x, p); } x = mulmod(x, x, p); e >>= 1; }
    r
}
/// row r of the LDE: column polynomials at offset * g^r
fn spec_row(s: &Spec, polys: &[Vec<El>], g: u128, offset: u128, r: usize) -> Vec<El> {
    let x = mulmod(offset % s.p, powmod(g, r as u128, s.p), s.p);
    polys.iter().map(|c| horner(s, c, x)).collect()
}
/// the verifier's partition size, from the documentation of `PartitionOptions::partition_size`
fn my_partition_size(np: usize, hr: usize, deg: usize, cols: usize) -> usize {
    if np == 1 { return cols; }
    let per = (cols + np - 1) / np;
    per.max(hr / deg)
}
/// the verifier's `hash_row` rule
fn verifier_hash_row<H: ElementHasher, E: FieldElement<BaseField = H::BaseField>>(row: &[E], ps: usize) -> H::Digest {
    if ps == row.len() { return H::hash_elements(row); }
    let mut parts: Vec<H::Digest> = Vec::new();
    let mut i = 0;
    while i < row.len() {
        let j = (i + ps).min(row.len());
        parts.push(H::hash_elements(&row[i..j]));
        i = j;
    }
    H::merge_many(&parts)
}
fn layout_oracle(np: usize, hr: usize, deg: usize, cols: usize) -> String {
    let ps = my_partition_size(np, hr, deg, cols);
    let n = (cols + ps - 1) / ps;
    let lens = if ps == cols { "whole".to_string() } else {
        let mut v = vec![];
        let mut left = cols;
        while left > 0 { let t = left.min(ps); v.push(t.to_string()); left -= t; }
        v.join(",")
    };
    format!("ok ps={ps} np={n} lens={lens}")
}

// ---------------------------------------------------------------------------------------------
// implementation side
// ---------------------------------------------------------------------------------------------
fn to_cols<E: Fld>(m: &[Vec<El>]) -> Vec<Vec<E>> { m.iter().map(|c| c.iter().map(|e| E::from_canon(e)).collect()).collect() }

fn eval_n<E: FieldElement>(nn: usize, polys: &ColMatrix<E>, blowup: usize) -> RowMatrix<E> {
    match nn {
        0 => RowMatrix::evaluate_polys::<0>(polys, blowup),
        1 => RowMatrix::evaluate_polys::<1>(polys, blowup),
        2 => RowMatrix::evaluate_polys::<2>(polys, blowup),
        3 => RowMatrix::evaluate_polys::<3>(polys, blowup),
        4 => RowMatrix::evaluate_polys::<4>(polys, blowup),
        16 => RowMatrix::evaluate_polys::<16>(polys, blowup),
        _ => RowMatrix::evaluate_polys::<8>(polys, blowup),
    }
}
fn eval_over_n<E: FieldElement>(nn: usize, polys: &ColMatrix<E>, dom: &StarkDomain<E::BaseField>) -> RowMatrix<E> {
    match nn {
        1 => RowMatrix::evaluate_polys_over::<1>(polys, dom),
        2 => RowMatrix::evaluate_polys_over::<2>(polys, dom),
        3 => RowMatrix::evaluate_polys_over::<3>(polys, dom),
        4 => RowMatrix::evaluate_polys_over::<4>(polys, dom),
        16 => RowMatrix::evaluate_polys_over::<16>(polys, dom),
        _ => RowMatrix::evaluate_polys_over::<8>(polys, dom),
    }
}
fn rows_of<E: Fld>(m: &RowMatrix<E>) -> Vec<Vec<El>> {
    (0..m.num_rows()).map(|r| m.row(r).iter().map(|e| e.to_canon()).collect()).collect()
}
fn row_width<E: FieldElement>(m: &RowMatrix<E>) -> usize { m.data().len() / m.num_rows() }
fn col_rows<E: Fld>(m: &ColMatrix<E>) -> Vec<Vec<El>> {
    (0..m.num_rows()).map(|r| (0..m.num_cols()).map(|c| m.get(c, r).to_canon()).collect()).collect()
}

/// a minimal real `Air`: one column, one transition constraint of the given degree, one assertion.
/// Only its `AirContext` matters here: `StarkDomain::new(&air)` reads trace length, constraint
/// evaluation domain size (from the degree), LDE domain size (from the options) and the offset.
struct MiniAir<B: BF> { ctx: AirContext<B> }
impl<B: BF> Air for MiniAir<B> {
    type BaseField = B;
    type PublicInputs = ();
    fn new(trace_info: TraceInfo, _pub_inputs: (), options: ProofOptions) -> Self {
        MiniAir { ctx: AirContext::new(trace_info, vec![TransitionConstraintDegree::new(1)], 1, options) }
    }
    fn context(&self) -> &AirContext<B> { &self.ctx }
    fn evaluate_transition<E: FieldElement<BaseField = B>>(&self, _frame: &EvaluationFrame<E>, _periodic: &[E], result: &mut [E]) {
        result[0] = E::ZERO;
    }
    fn get_assertions(&self) -> Vec<Assertion<B>> { vec![Assertion::single(0, 0, B::ZERO)] }
}
fn mini_air<B: BF>(n: usize, degree: usize, blowup: usize) -> MiniAir<B> {
    let options = ProofOptions::new(1, blowup, 0, FieldExtension::None, 2, 1, BatchingMethod::Linear, BatchingMethod::Linear);
    MiniAir { ctx: AirContext::new(TraceInfo::new(1, n), vec![TransitionConstraintDegree::new(degree)], 1, options) }
}
/// constraint-evaluation blowup from the documentation: the power of two covering degree - 1, at least 2
fn my_ce_blowup(degree: usize) -> usize {
    let mut p = 1;
    while p < degree - 1 { p *= 2; }
    p.max(2)
}
/// (constraint degree, LDE blowup): ce < lde, ce == lde, maximal gap (degree 1, blowup 2..128)
const AIR_CASES: [(usize, usize); 17] = [(1, 2), (1, 4), (1, 8), (1, 16), (1, 32), (1, 64), (1, 128), (2, 2), (3, 16), (3, 2),
    (4, 4), (5, 4), (5, 8), (5, 32), (8, 8), (9, 8), (9, 16)];

struct Budget { left: u64, cap: u64 }
impl Budget {
    /// largest k in [3, maxk] whose cost fits the per-case cap (and the total budget)
    fn pick_k(&mut self, want: u32, width: usize, blowup: usize, factor: u64) -> u32 {
        let mut k = want;
        loop {
            let cost = ((width + 7) / 8 * 8) as u64 * ((1u64 << k) * blowup as u64) * factor;
            if k <= 3 || (cost <= self.cap && cost <= self.left) { self.left = self.left.saturating_sub(cost); return k; }
            k -= 1;
        }
    }
}

const POS: [(usize, usize); 12] = [(1, 1), (2, 8), (4, 8), (16, 4), (3, 1), (2, 1), (8, 2), (16, 255), (4, 3), (5, 7), (16, 1), (2, 12)];

fn run_field<B, E>(rng: &mut Rng, out: &mut Out, maxk: u32, bud: &mut Budget, factor: u64, widths: &[usize])
where
    B: BF + Fld + 'static,
    E: FieldElement<BaseField = B> + Fld + 'static,
{
    let (sb, se) = (spec(B::NAME), spec(E::NAME));
    let name = E::NAME;
    let p = sb.p;
    let deg = se.deg;
    let gen = B::GENERATOR.to_canon()[0];
    let root = |k: u32| -> u128 { B::get_root_of_unity(k).to_canon()[0] };
    let bcan = |x: u128| -> B { B::from_canon(&[x]) };
    const FULL: u64 = 1 << 19; // full Horner oracle when rows * cols * n * deg^2 is below this

    let sample = |rng: &mut Rng, rows: usize, blowup: usize| -> Vec<usize> {
        let mut v = vec![0, 1, blowup.min(rows - 1), rows - 1, rng.below(rows as u64) as usize, rng.below(rows as u64) as usize];
        v.sort(); v.dedup(); v
    };
    // oracle string for an LDE request (full or regex on the sampled rows)
    let lde_oracle = |polys: &[Vec<El>], n: usize, blowup: usize, offset: u128, roww: String, sel: &[usize]| -> String {
        let rows = n * blowup;
        let g = root((rows as u64).trailing_zeros());
        let cost = rows as u64 * polys.len() as u64 * n as u64 * (deg * deg) as u64;
        if cost <= FULL {
            let all: Vec<Vec<El>> = (0..rows).map(|r| spec_row(&se, polys, g, offset, r)).collect();
            let s = show_matrix(&all, 0, sel);
            s.replacen(":w0:", &format!(":w{roww}:"), 1)
        } else {
            let picked: Vec<String> = sel.iter().map(|&r| spec_row(&se, polys, g, offset, r).iter().map(|e| show(e)).collect::<Vec<_>>().join(";")).collect();
            format!("~^{}x{}:w{}:{}:h[0-9]+$", rows, polys.len(), roww, picked.join("/"))
        }
    };
    let padded = |nn: usize, cols: usize| -> usize { (cols * deg + nn - 1) / nn * nn };

    for (wi, &w) in widths.iter().enumerate() {
        let nn = *rng.pick(&[8usize, 8, 8, 8, 1, 2, 3, 4, 16]);
        let blowup = *rng.pick(&[2usize, 2, 4, 8, 16]);
        let kind = (wi % 3) as u64;
        let k = bud.pick_k(rng.range(3, if maxk > 10 { 9 } else { 6 }) as u32, w * deg, blowup, factor);
        let n = 1usize << k;
        let seed = rng.next();
        let polys = gen_matrix(&se, kind, w, n, seed);
        let rows = n * blowup;
        let sel = sample(rng, rows, blowup);
        // ---- evaluate_polys::<N>
        {
            let oracle = lde_oracle(&polys, n, blowup, gen, padded(nn, w).to_string(), &sel);
            let (p2, s2) = (polys.clone(), sel.clone());
            out.count(&format!("{name}:lde:N{nn}:b{blowup}:kind{kind}"));
            out.count(&format!("{name}:width:{}", if (w * deg) % nn == 0 { "full-segments" } else { "partial-last-segment" }));
            out.case(&format!("c28 {name} lde {nn} {kind} {w} {k} {blowup} {seed} {}", show_sel(&sel)), &oracle, move || {
                let cm = ColMatrix::new(to_cols::<E>(&p2));
                let m = eval_n(nn, &cm, blowup);
                show_matrix(&rows_of(&m), row_width(&m), &s2)
            });
        }
        // ---- evaluate_polys_over::<N> and evaluate_columns_over on the same custom domain
        if wi % 2 == 0 {
            let s = match wi % 6 { 0 => 1, 2 => gen, _ => 1 + rng.next128() % (p - 1) };
            let oracle = lde_oracle(&polys, n, blowup, s, padded(nn, w).to_string(), &sel);
            let (p2, s2) = (polys.clone(), sel.clone());
            out.count(&format!("{name}:ldeover:N{nn}"));
            bud.left = bud.left.saturating_sub((padded(8, w) * rows) as u64 * factor);
            out.case(&format!("c28 {name} ldeover {nn} {kind} {w} {k} {blowup} {s} {seed} {}", show_sel(&sel)), &oracle, move || {
                let cm = ColMatrix::new(to_cols::<E>(&p2));
                let dom = StarkDomain::from_twiddles(fft::get_twiddles::<B>(n), blowup, bcan(s));
                let m = eval_over_n(nn, &cm, &dom);
                show_matrix(&rows_of(&m), row_width(&m), &s2)
            });
            let oracle = lde_oracle(&polys, n, blowup, s, "0".to_string(), &sel);
            let (p2, s2) = (polys.clone(), sel.clone());
            out.count(&format!("{name}:evalcols"));
            bud.left = bud.left.saturating_sub((w * deg * rows) as u64 * factor);
            out.case(&format!("c28 {name} evalcols {kind} {w} {k} {blowup} {s} {seed} {}", show_sel(&sel)), &oracle, move || {
                let cm = ColMatrix::new(to_cols::<E>(&p2));
                let dom = StarkDomain::from_twiddles(fft::get_twiddles::<B>(n), blowup, bcan(s));
                show_matrix(&col_rows(&cm.evaluate_columns_over(&dom)), 0, &s2)
            });
        }
        // ---- commit_to_rows with the test hasher: root and leaves vs the verifier's rule
        {
            let (np, hr) = POS[wi % POS.len()];
            let p2 = polys.clone();
            // oracle: LDE by the implementation (checked above), digests by the verifier's rule
            let ps = my_partition_size(np, hr, deg, w);
            let p3 = polys.clone();
            let oracle = std::panic::catch_unwind(move || {
                let cm = ColMatrix::new(to_cols::<E>(&p3));
                let m = eval_n(8, &cm, blowup);
                assert_eq!(m.num_cols(), w);
                let leaves: Vec<TD> = (0..m.num_rows()).map(|r| verifier_hash_row::<ToyE<B>, E>(m.row(r), ps)).collect();
                let mut lh: u64 = 0xcbf29ce484222325;
                for d in &leaves { lh = (lh ^ d.0[0]).wrapping_mul(0x100000001b3); lh = lh.wrapping_mul(0x100000001b3); }
                let tree = MerkleTree::<ToyE<B>>::new(leaves).unwrap();
                format!("root={}:lh{}", show_td(tree.root()), lh)
            }).unwrap_or_else(|_| "oracle-side-panic".to_string());
            out.count(&format!("{name}:commit:np{np}:hr{hr}:{}", if ps == w { "whole-row" } else if ps > w { "one-partition-merged" } else { "partitioned" }));
            bud.left = bud.left.saturating_sub((padded(8, w) * rows) as u64 * factor);
            out.case(&format!("c28 {name} commit 8 {kind} {w} {k} {blowup} {np} {hr} {seed}"), &oracle, move || {
                let cm = ColMatrix::new(to_cols::<E>(&p2));
                let m = eval_n(8, &cm, blowup);
                let t: MerkleTree<ToyE<B>> = m.commit_to_rows::<ToyE<B>, MerkleTree<ToyE<B>>>(PartitionOptions::new(np, hr));
                let mut lh: u64 = 0xcbf29ce484222325;
                for d in t.leaves() { lh = (lh ^ d.0[0]).wrapping_mul(0x100000001b3); lh = lh.wrapping_mul(0x100000001b3); }
                format!("root={}:lh{}", show_td(t.root()), lh)
            });
        }
        // ---- commit_to_rows with real hashers: commitment = root over the verifier's row digests
        for hname in ["b3", "rp64"] {
            if hname == "rp64" && B::NAME != "f64" { continue; }
            let (np, hr) = POS[(wi + 5) % POS.len()];
            let p2 = polys.clone();
            let oracle = layout_oracle(np, hr, deg, w);
            out.count(&format!("{name}:real:{hname}"));
            out.case(&format!("c28 {name} real {hname} 8 {kind} {w} {k} {blowup} {np} {hr} {seed}"), &oracle, move || {
                let cm = ColMatrix::new(to_cols::<E>(&p2));
                let m = eval_n(8, &cm, blowup);
                let po = PartitionOptions::new(np, hr);
                let (ps, npart) = (po.partition_size::<E>(m.num_cols()), po.num_partitions::<E>(m.num_cols()));
                let same = if hname == "b3" { real_commit_agrees::<Blake3_256<B>, E>(&m, po, np, hr) } else { real_rp64::<E>(&m, po, np, hr) };
                let lens = if ps == m.num_cols() { "whole".to_string() } else {
                    m.row(0).chunks(ps).map(|c| c.len().to_string()).collect::<Vec<_>>().join(",")
                };
                format!("{} ps={ps} np={npart} lens={lens}", if same { "ok" } else { "diff" })
            });
        }
        // ---- interpolate_columns; then the LDE over the un-shifted domain contains the trace
        if wi % 3 == 0 {
            let tr = polys.clone(); // the generated matrix read as a trace
            let all_rows: Vec<Vec<El>> = (0..n).map(|r| tr.iter().map(|c| c[r].clone()).collect()).collect();
            let oracle = show_matrix(&all_rows, 0, &[]);
            let p2 = polys.clone();
            out.count(&format!("{name}:rt"));
            bud.left = bud.left.saturating_sub((padded(8, w) * rows) as u64 * factor);
            out.case(&format!("c28 {name} rt {nn} {kind} {w} {k} {blowup} {seed}"), &oracle, move || {
                let cm = ColMatrix::new(to_cols::<E>(&p2));
                let polys = cm.interpolate_columns();
                let dom = StarkDomain::from_twiddles(fft::get_twiddles::<B>(n), blowup, B::ONE);
                let m = eval_over_n(nn, &polys, &dom);
                let rows: Vec<Vec<El>> = (0..n).map(|i| m.row(i * blowup).iter().map(|e| e.to_canon()).collect()).collect();
                show_matrix(&rows, 0, &[])
            });
            // interpolate_columns itself: the result evaluates back to the trace (Horner at w^i)
            let wroot = root(k);
            let isel: Vec<usize> = vec![0, 1, n - 1];
            let p2 = polys.clone();
            let (se2, tr2) = (spec(E::NAME), tr.clone());
            out.count(&format!("{name}:interp"));
            out.case(&format!("c28 {name} interp {kind} {w} {k} {seed} {}", show_sel(&isel)), "~^[0-9]+x[0-9]+:w0:", move || {
                let cm = ColMatrix::new(to_cols::<E>(&p2));
                let polys = cm.interpolate_columns();
                let pc: Vec<Vec<El>> = (0..polys.num_cols()).map(|c| polys.get_column(c).iter().map(|e| e.to_canon()).collect()).collect();
                // oracle inside the case: naive evaluation of the returned coefficients
                let mut good = true;
                for i in [0usize, 1, n / 2, n - 1] {
                    let x = powmod(wroot, i as u128, se2.p);
                    for (c, col) in pc.iter().enumerate() { if horner(&se2, col, x) != tr2[c][i] { good = false; } }
                }
                let rows: Vec<Vec<El>> = (0..n).map(|r| pc.iter().map(|c| c[r].clone()).collect()).collect();
                if good { show_matrix(&rows, 0, &isel) } else { format!("bad-interpolant {}", show_matrix(&rows, 0, &isel)) }
            });
        }
    }

    // ---- larger sizes (up to 2^maxk coefficients; thorough: across the 1024-row threshold)
    for (bi, &k) in [7u32, 8, 9, maxk, maxk].iter().enumerate() {
        let w = if bi == 3 { 3 } else { *rng.pick(&[3usize, 9, 17, 8]) };
        let blowup = if bi == 4 { if factor > 1 || deg > 1 { 4 } else { 8 } } else { 2 };
        let w = if bi == 4 { w.min((8 / deg).max(2)) } else if k >= 9 { w.min(9) } else { w };
        let k = k.min(maxk);
        let n = 1usize << k;
        let seed = rng.next();
        let polys = gen_matrix(&se, 0, w, n, seed);
        let rows = n * blowup;
        let sel = sample(rng, rows, blowup);
        let oracle = lde_oracle(&polys, n, blowup, gen, padded(8, w).to_string(), &sel);
        let (p2, s2) = (polys.clone(), sel.clone());
        out.count(&format!("{name}:lde-large:k{k}:b{blowup}"));
        out.case(&format!("c28 {name} lde 8 0 {w} {k} {blowup} {seed} {}", show_sel(&sel)), &oracle, move || {
            let cm = ColMatrix::new(to_cols::<E>(&p2));
            let m = eval_n(8, &cm, blowup);
            show_matrix(&rows_of(&m), row_width(&m), &s2)
        });
    }

    // ---- domains built by StarkDomain::new(&air): the constraint-evaluation blowup (from the
    // constraint degree) may be smaller than the LDE blowup; evaluate_columns_over and
    // evaluate_polys_over must produce n * LDE-blowup rows over offset * g_lde^r
    for (ci, &(degree, blowup)) in AIR_CASES.iter().enumerate() {
        let lb = blowup.trailing_zeros();
        let hi = if maxk > 10 { 11 } else { 8 };
        let k = if lb + 3 >= hi { 3 } else { 3 + (ci as u32 + deg as u32) % (hi - lb - 2).min(4) };
        let n = 1usize << k;
        let ceb = my_ce_blowup(degree);
        let gap = if ceb < blowup { "ce<lde" } else { "ce=lde" };
        out.count(&format!("{name}:dom:{gap}"));
        let oracle = format!("tl={n} ce={} lde={} t2c={ceb} t2l={blowup} c2l={} off={gen}", n * ceb, n * blowup, blowup / ceb);
        out.case(&format!("c28 {name} dom {k} {degree} {blowup}"), &oracle, move || {
            let air = mini_air::<B>(n, degree, blowup);
            let d = StarkDomain::new(&air);
            format!("tl={} ce={} lde={} t2c={} t2l={} c2l={} off={}", d.trace_length(), d.ce_domain_size(), d.lde_domain_size(),
                d.trace_to_ce_blowup(), d.trace_to_lde_blowup(), d.ce_to_lde_blowup(), show(&d.offset().to_canon()))
        });
        let w = [1usize, 2, 3, 5, 9, 4][ci % 6];
        let nn = [8usize, 1, 3, 8, 2, 16][ci % 6];
        let kind = (ci % 3) as u64;
        let seed = rng.next();
        let polys = gen_matrix(&se, kind, w, n, seed);
        let rows = n * blowup;
        let sel = sample(rng, rows, blowup);
        let oracle = lde_oracle(&polys, n, blowup, gen, "0".to_string(), &sel);
        let (p2, s2) = (polys.clone(), sel.clone());
        out.count(&format!("{name}:aircols:{gap}"));
        out.case(&format!("c28 {name} aircols {kind} {w} {k} {degree} {blowup} {seed} {}", show_sel(&sel)), &oracle, move || {
            let cm = ColMatrix::new(to_cols::<E>(&p2));
            let dom = StarkDomain::new(&mini_air::<B>(n, degree, blowup));
            show_matrix(&col_rows(&cm.evaluate_columns_over(&dom)), 0, &s2)
        });
        let oracle = lde_oracle(&polys, n, blowup, gen, padded(nn, w).to_string(), &sel);
        let (p2, s2) = (polys.clone(), sel.clone());
        out.count(&format!("{name}:airover:{gap}"));
        out.case(&format!("c28 {name} airover {nn} {kind} {w} {k} {degree} {blowup} {seed} {}", show_sel(&sel)), &oracle, move || {
            let cm = ColMatrix::new(to_cols::<E>(&p2));
            let dom = StarkDomain::new(&mini_air::<B>(n, degree, blowup));
            let m = eval_over_n(nn, &cm, &dom);
            show_matrix(&rows_of(&m), row_width(&m), &s2)
        });
    }
    // AirContext::new rejects an LDE blowup below the constraint-evaluation blowup
    for (degree, blowup) in [(5usize, 2usize), (9, 4), (17, 8)] {
        out.count(&format!("{name}:dom:ce>lde"));
        out.case(&format!("c28 {name} dom 3 {degree} {blowup}"), "abort", move || {
            let d = StarkDomain::new(&mini_air::<B>(8, degree, blowup));
            format!("tl={} lde={}", d.trace_length(), d.lde_domain_size())
        });
    }

    // ---- documented panics: blowup 0 / 1 / 3, one-row and empty matrices, N = 0
    let seed = rng.next();
    for (nn, w, k, blowup) in [(8usize, 2usize, 3u32, 1usize), (8, 2, 3, 3), (8, 2, 3, 0), (8, 0, 3, 2), (8, 2, 0, 2), (0, 2, 3, 2), (8, 3, 3, 6)] {
        out.count(&format!("{name}:panic"));
        out.case(&format!("c28 {name} lde {nn} 0 {w} {k} {blowup} {seed} -"), "abort", move || {
            let polys = gen_matrix(&spec(E::NAME), 0, w, 1 << k, seed);
            let cm = ColMatrix::new(to_cols::<E>(&polys));
            let m = eval_n(nn, &cm, blowup);
            show_matrix(&rows_of(&m), row_width(&m), &[])
        });
    }
}

fn real_commit_agrees<H, E>(m: &RowMatrix<E>, po: PartitionOptions, np: usize, hr: usize) -> bool
where
    E: FieldElement,
    H: ElementHasher<BaseField = E::BaseField>,
{
    let t: MerkleTree<H> = m.commit_to_rows::<H, MerkleTree<H>>(po);
    let ps = my_partition_size(np, hr, E::EXTENSION_DEGREE, m.num_cols());
    let leaves: Vec<H::Digest> = (0..m.num_rows()).map(|r| verifier_hash_row::<H, E>(m.row(r), ps)).collect();
    let t2 = MerkleTree::<H>::new(leaves).unwrap();
    t.root() == t2.root() && t.leaves() == t2.leaves()
}
/// Rp64_256 is an `ElementHasher<BaseField = f64::BaseElement>` only
fn real_rp64<E: FieldElement + 'static>(m: &RowMatrix<E>, po: PartitionOptions, np: usize, hr: usize) -> bool {
    use std::any::Any;
    if let Some(m64) = (m as &dyn Any).downcast_ref::<RowMatrix<f64::BaseElement>>() {
        return real_commit_agrees::<Rp64_256, f64::BaseElement>(m64, po, np, hr);
    }
    if let Some(mq) = (m as &dyn Any).downcast_ref::<RowMatrix<QuadExtension<f64::BaseElement>>>() {
        return real_commit_agrees::<Rp64_256, QuadExtension<f64::BaseElement>>(mq, po, np, hr);
    }
    if let Some(mc) = (m as &dyn Any).downcast_ref::<RowMatrix<CubeExtension<f64::BaseElement>>>() {
        return real_commit_agrees::<Rp64_256, CubeExtension<f64::BaseElement>>(mc, po, np, hr);
    }
    true
}

/// `n` = log2 of the largest polynomial size (10 quick, 13 thorough)
pub fn run(rng: &mut Rng, out: &mut Out, n: usize) {
    let maxk = n.clamp(6, 16) as u32;
    let thorough = maxk > 10;
    // ---- PartitionOptions: partition_size / num_partitions against plain integer arithmetic
    for np in [1usize, 2, 3, 4, 5, 8, 15, 16] {
        for hr in [1usize, 2, 4, 7, 8, 12, 255] {
            for deg in 1usize..=3 {
                for cols in 0usize..=34 {
                    if !thorough && (np + hr + deg + cols) % 3 != 0 && cols > 2 { continue; }
                    let oracle = if cols == 0 && my_partition_size(np, hr, deg, 0) == 0 { "abort".to_string() } else {
                        let ps = my_partition_size(np, hr, deg, cols);
                        format!("{} {}", ps, (cols + ps - 1) / ps)
                    };
                    out.count(&format!("po:deg{deg}:{}", if cols == 0 { "zero-cols" } else { "cols" }));
                    out.case(&format!("c28 po {np} {hr} {deg} {cols}"), &oracle, move || {
                        let po = PartitionOptions::new(np, hr);
                        let (a, b) = match deg {
                            1 => (po.partition_size::<f64::BaseElement>(cols), po.num_partitions::<f64::BaseElement>(cols)),
                            2 => (po.partition_size::<QuadExtension<f64::BaseElement>>(cols), po.num_partitions::<QuadExtension<f64::BaseElement>>(cols)),
                            _ => (po.partition_size::<winter_math::fields::CubeExtension<f64::BaseElement>>(cols), po.num_partitions::<winter_math::fields::CubeExtension<f64::BaseElement>>(cols)),
                        };
                        format!("{a} {b}")
                    });
                }
            }
        }
    }
    for (np, hr) in [(0usize, 1usize), (17, 1), (1, 0), (1, 256), (16, 255)] {
        let oracle = if (1..=16).contains(&np) && (1..=255).contains(&hr) { "-" } else { "abort" };
        out.count("po:constructor");
        out.case(&format!("c28 po {np} {hr} 1 5"), oracle, move || {
            let po = PartitionOptions::new(np, hr);
            format!("{} {}", po.partition_size::<f64::BaseElement>(5), po.num_partitions::<f64::BaseElement>(5))
        });
    }
    // ---- end to end: an honest proof made with these partition options verifies (the prover's
    // row digests of main / aux / constraint-composition rows are the ones the verifier recomputes);
    // the Lean driver answers the ideal verdict `ok` (theorem hash_row_prover_eq_verifier)
    crate::protocol::install_panic_hook();
    let reps = if thorough { 3 } else { 1 };
    for rep in 0..reps {
        for (i, &(np, hr)) in POS.iter().enumerate() {
            let (field, hasher) = [("f64", "b3"), ("f64", "rp64"), ("f128", "b3")][(i + rep) % 3];
            let pm = crate::protocol::modulus(field);
            let inst = crate::genair::gen_instance(rng, pm, 5, true);
            let mut opts = crate::protocol::gen_opts(rng, &inst, field, true);
            opts.np = np;
            opts.hr = hr;
            opts.g = 0;
            let claimed: Vec<Vec<u128>> = inst.desc.asserts.iter().map(|a| a.values.clone()).collect();
            out.count(&format!("e2e:{field}/{hasher}:ext{}", opts.e));
            out.count(&format!("e2e:width{}:aux{}", inst.desc.width, inst.desc.aux_width));
            let tag = rng.next();
            out.case(&format!("c28 e2e {field} {hasher} np={np} hr={hr} ext={} width={} aux={} n={} opts={} id={tag}", opts.e, inst.desc.width, inst.desc.aux_width, inst.n, opts.show()), "ok", || {
                let o = crate::protocol::run_cfg(field, hasher, &inst, &claimed, &opts, None);
                if o.verdict == "ok" { "ok".into() } else { format!("reject {}", o.detail) }
            });
        }
    }
    std::panic::set_hook(Box::new(|_| {}));
    // ---- matrices
    let (total, cap) = if thorough { (14u64 << 20, 1u64 << 19) } else { (1u64 << 20, 1u64 << 15) };
    let all: Vec<usize> = (1..=20).chain(31..=34).collect();
    let some: Vec<usize> = (1..=11).chain([13, 16, 17, 31, 32]).collect();
    let mut bud = Budget { left: total / 2, cap };
    run_field::<f64::BaseElement, f64::BaseElement>(rng, out, maxk, &mut bud, 1, &all);
    let mut bud = Budget { left: total / 4, cap };
    run_field::<f64::BaseElement, QuadExtension<f64::BaseElement>>(rng, out, maxk, &mut bud, 1, &all);
    let mut bud = Budget { left: total / 8, cap };
    run_field::<f64::BaseElement, CubeExtension<f64::BaseElement>>(rng, out, maxk.min(if thorough { 11 } else { 9 }), &mut bud, 1, if thorough { &all } else { &some });
    let mut bud = Budget { left: total / 4, cap };
    run_field::<f128::BaseElement, f128::BaseElement>(rng, out, maxk.min(11), &mut bud, 3, &all);
}
