//! C25: security estimates (conjectured / proven) and `AcceptableOptions::validate`.
//!
//! Every case builds a real `winter_air::proof::Proof` (`Proof::new_dummy()` with its public
//! `context` field replaced by `Context::new::<B>(..)`, or by a context DESERIALISED from bytes when
//! the modulus is not one of the three fields') and calls the public accessors
//! `conjectured_security::<H>()`, `proven_security::<H>()`, `AcceptableOptions::validate::<H>()`.
//!
//! A context is written as in the `obj` family (17 words):
//!   `main aux rands length metahex modulushex q b g e f rd bc bd np hr num_constraints`.
//! Request lines (`c25 <op> ..`):
//!   sec <cr> <ctx>                   -> `<conj> <ud> <ld> <bounds tag>`
//!   seczero <cr> <context bytes>     -> `decode-rejected`: a serialised context whose modulus bytes are all
//!                                       zero must be refused by `Context::read_from` (fix c8b170c; before it,
//!                                       base_field_bits = 0 made `min(field, query) - 1` underflow)
//!   tab conj|proven <axis> <cr> <ctx>-> values along one axis (q: 1..255, g: 0..32, e: 1..3; everything
//!                                       else fixed) + `<bounds tag> <mono tag>`
//!   grid <cr> <ctx>                  -> conjectured security on ALL e x g x q points: `sum= hash=` + tags
//!   validate conj|proven <min> <cr> <ctx> -> verdict + `is_at_least(min)`
//!   validate set <k> <po>*k <cr> <ctx>    -> verdict
//! ORACLES (none looks at how the implementation computes its numbers):
//!   (i)   every level <= collision resistance;        (ii) conjectured < field bits x extension degree
//!         -> tag `bounds-ok` | `BOUND-VIOLATION ..` computed here from the implementation's values;
//!   (iii) monotonicity between NEIGHBOURING option points (queries+1, grinding+1, extension+1)
//!         -> tag `mono-ok` | `MONO-VIOLATION <what> <axis value> <value> <next value>`;
//!   (iv)  validate's verdict == decision recomputed from the reported levels / from comparing the
//!         option tuples field by field.
//! The Lean driver answers the same lines by running the same comparisons on the model's values.
use winter_air::{
    proof::{Context, Proof},
    BatchingMethod, FieldExtension, ProofOptions, TraceInfo,
};
use winter_crypto::{
    hashers::{Blake3_192, Blake3_256, Rp62_248, Rp64_256, RpJive64_256, Sha3_256},
    Hasher,
};
use winter_math::{fields::{f128, f62, f64}, StarkField};
use winter_utils::{Deserializable, Serializable};
use winter_verifier::{AcceptableOptions, VerifierError};

use crate::out::Out;
use crate::rng::{hex, Rng};

// ---- hash functions: the six real ones + stand-ins with an arbitrary COLLISION_RESISTANCE ---------

type B3 = Blake3_256<f64::BaseElement>;

/// a `Hasher` whose only purpose is its `COLLISION_RESISTANCE` constant (the trait allows any value)
struct Cr<const N: u32>;
impl<const N: u32> Hasher for Cr<N> {
    type Digest = <B3 as Hasher>::Digest;
    const COLLISION_RESISTANCE: u32 = N;
    fn hash(bytes: &[u8]) -> Self::Digest { B3::hash(bytes) }
    fn merge(values: &[Self::Digest; 2]) -> Self::Digest { B3::merge(values) }
    fn merge_many(values: &[Self::Digest]) -> Self::Digest { B3::merge_many(values) }
    fn merge_with_int(seed: Self::Digest, value: u64) -> Self::Digest { B3::merge_with_int(seed, value) }
}

/// collision resistances of the hash functions shipped with the crate
const REAL_CRS: [u32; 3] = [96, 124, 128];
/// further levels (stand-in hashers), around every constant of the computation
const EXTRA_CRS: [u32; 27] = [0, 1, 2, 61, 62, 63, 64, 79, 80, 81, 95, 97, 100, 123, 125, 127, 129, 185, 186, 191, 192, 255, 256, 383, 384, 1000, u32::MAX];

macro_rules! with_hasher {
    ($cr:expr, $alt:expr, $f:ident ( $($a:expr),* )) => {
        match ($cr, $alt) {
            (96, _) => $f::<Blake3_192<f64::BaseElement>>($($a),*),
            (124, _) => $f::<Rp62_248>($($a),*),
            (128, 0) => $f::<Blake3_256<f64::BaseElement>>($($a),*),
            (128, 1) => $f::<Sha3_256<f128::BaseElement>>($($a),*),
            (128, 2) => $f::<Rp64_256>($($a),*),
            (128, _) => $f::<RpJive64_256>($($a),*),
            (0, _) => $f::<Cr<0>>($($a),*), (1, _) => $f::<Cr<1>>($($a),*), (2, _) => $f::<Cr<2>>($($a),*),
            (61, _) => $f::<Cr<61>>($($a),*), (62, _) => $f::<Cr<62>>($($a),*), (63, _) => $f::<Cr<63>>($($a),*),
            (64, _) => $f::<Cr<64>>($($a),*), (79, _) => $f::<Cr<79>>($($a),*), (80, _) => $f::<Cr<80>>($($a),*),
            (81, _) => $f::<Cr<81>>($($a),*), (95, _) => $f::<Cr<95>>($($a),*), (97, _) => $f::<Cr<97>>($($a),*),
            (100, _) => $f::<Cr<100>>($($a),*), (123, _) => $f::<Cr<123>>($($a),*), (125, _) => $f::<Cr<125>>($($a),*),
            (127, _) => $f::<Cr<127>>($($a),*), (129, _) => $f::<Cr<129>>($($a),*), (185, _) => $f::<Cr<185>>($($a),*),
            (186, _) => $f::<Cr<186>>($($a),*), (191, _) => $f::<Cr<191>>($($a),*), (192, _) => $f::<Cr<192>>($($a),*),
            (255, _) => $f::<Cr<255>>($($a),*), (256, _) => $f::<Cr<256>>($($a),*), (383, _) => $f::<Cr<383>>($($a),*),
            (384, _) => $f::<Cr<384>>($($a),*), (1000, _) => $f::<Cr<1000>>($($a),*),
            (u32::MAX, _) => $f::<Cr<{ u32::MAX }>>($($a),*),
            _ => panic!("no hasher with this collision resistance"),
        }
    };
}

fn conj_of<H: Hasher>(p: &Proof) -> u32 { p.conjectured_security::<H>().bits() }
fn proven_of<H: Hasher>(p: &Proof) -> (u32, u32) { let s = p.proven_security::<H>(); (s.udr_bits(), s.ldr_bits()) }
fn conj_ial<H: Hasher>(p: &Proof, min: u32) -> bool { p.conjectured_security::<H>().is_at_least(min) }
fn proven_ial<H: Hasher>(p: &Proof, min: u32) -> bool { p.proven_security::<H>().is_at_least(min) }
fn validate_with<H: Hasher>(a: &AcceptableOptions, p: &Proof) -> String {
    match a.validate::<H>(p) {
        Ok(()) => "ok".to_string(),
        Err(VerifierError::InsufficientConjecturedSecurity(a, b)) => format!("err conj {a} {b}"),
        Err(VerifierError::InsufficientProvenSecurity(a, b)) => format!("err proven {a} {b}"),
        Err(VerifierError::UnacceptableProofOptions) => "err options".to_string(),
        Err(e) => format!("err other {e}"),
    }
}

fn conj(cr: u32, alt: u64, p: &Proof) -> u32 { with_hasher!(cr, alt, conj_of(p)) }
fn proven(cr: u32, alt: u64, p: &Proof) -> (u32, u32) { with_hasher!(cr, alt, proven_of(p)) }

// ---- contexts ---------------------------------------------------------------------------------------

#[derive(Clone, Debug, PartialEq)]
struct Po { q: usize, b: usize, g: u32, e: u8, f: usize, rd: usize, bc: u8, bd: u8, np: usize, hr: usize }

fn ext_of(e: u8) -> FieldExtension { match e { 1 => FieldExtension::None, 2 => FieldExtension::Quadratic, _ => FieldExtension::Cubic } }
fn bm_of(b: u8) -> BatchingMethod { match b { 0 => BatchingMethod::Linear, 1 => BatchingMethod::Algebraic, _ => BatchingMethod::Horner } }

impl Po {
    fn build(&self) -> ProofOptions {
        ProofOptions::new(self.q, self.b, self.g, ext_of(self.e), self.f, self.rd, bm_of(self.bc), bm_of(self.bd)).with_partitions(self.np, self.hr)
    }
    fn show(&self) -> String { format!("{} {} {} {} {} {} {} {} {} {}", self.q, self.b, self.g, self.e, self.f, self.rd, self.bc, self.bd, self.np, self.hr) }
}

#[derive(Clone, Debug)]
struct Cx {
    /// 0: f64, 1: f62, 2: f128 (modulus bits 64 / 62 / 128)
    fld: u8,
    main: usize,
    aux: usize,
    len: usize,
    nc: usize,
    po: Po,
    /// replaces the modulus bytes through the wire format (a context `Proof::from_bytes` accepts)
    modulus: Option<Vec<u8>>,
}

impl Cx {
    fn modulus_bytes(&self) -> Vec<u8> {
        match (&self.modulus, self.fld) {
            (Some(m), _) => m.clone(),
            (None, 0) => f64::BaseElement::get_modulus_le_bytes(),
            (None, 1) => f62::BaseElement::get_modulus_le_bytes(),
            (None, _) => f128::BaseElement::get_modulus_le_bytes(),
        }
    }
    /// ORACLE side: bit length of the modulus, by scanning every bit position (for the three real
    /// fields this is the documented 64 / 62 / 128)
    fn field_bits(&self) -> u64 {
        let m = self.modulus_bytes();
        let mut top = 0u64;
        for (i, byte) in m.iter().enumerate() {
            for k in 0..8 { if (byte >> k) & 1 == 1 { top = (i * 8 + k + 1) as u64; } }
        }
        if self.modulus.is_none() { assert_eq!(top, [64, 62, 128][self.fld as usize]); }
        top
    }
    fn show(&self) -> String {
        format!("{} {} {} {} - {} {} {}", self.main, self.aux, if self.aux > 0 { 1 } else { 0 }, self.len, hex(&self.modulus_bytes()), self.po.show(), self.nc)
    }
    fn context(&self) -> Context {
        let ti = TraceInfo::new_multi_segment(self.main, self.aux, if self.aux > 0 { 1 } else { 0 }, self.len, vec![]);
        let ctx = match self.fld {
            0 => Context::new::<f64::BaseElement>(ti.clone(), self.po.build(), self.nc),
            1 => Context::new::<f62::BaseElement>(ti.clone(), self.po.build(), self.nc),
            _ => Context::new::<f128::BaseElement>(ti.clone(), self.po.build(), self.nc),
        };
        match &self.modulus {
            None => ctx,
            Some(m) => Context::read_from_bytes(&Self::splice(&ctx, &ti, m)).expect("decodable context"),
        }
    }
    /// the serialised context with its modulus bytes replaced
    fn splice(ctx: &Context, ti: &TraceInfo, m: &[u8]) -> Vec<u8> {
        let bytes = ctx.to_bytes();
        let skip = ti.to_bytes().len();
        let old = bytes[skip] as usize;
        let mut spliced = bytes[..skip].to_vec();
        spliced.push(m.len() as u8);
        spliced.extend_from_slice(m);
        spliced.extend_from_slice(&bytes[skip + 1 + old..]);
        spliced
    }
    /// serialised form of this context with the given modulus bytes (not decoded)
    fn bytes_with_modulus(&self, m: &[u8]) -> Vec<u8> {
        let ti = TraceInfo::new_multi_segment(self.main, self.aux, if self.aux > 0 { 1 } else { 0 }, self.len, vec![]);
        let ctx = Context::new::<f64::BaseElement>(ti.clone(), self.po.build(), self.nc);
        Self::splice(&ctx, &ti, m)
    }
    fn proof(&self) -> Proof {
        let mut p = Proof::new_dummy();
        p.context = self.context();
        p
    }
    /// the same dummy proof with its context replaced (tables evaluate thousands of points)
    fn put<'a>(&self, p: &'a mut Proof) -> &'a Proof {
        p.context = self.context();
        p
    }
    fn with(&self, axis: char, x: usize) -> Cx {
        let mut c = self.clone();
        match axis { 'q' => c.po.q = x, 'g' => c.po.g = x as u32, _ => c.po.e = x as u8 }
        c
    }
}

fn axis_values(axis: char) -> Vec<usize> {
    match axis { 'q' => (1..=255).collect(), 'g' => (0..=32).collect(), _ => vec![1, 2, 3] }
}

fn bound_conj(cx: &Cx, cr: u32, v: u32) -> Option<&'static str> {
    if v as u64 > cr as u64 { Some("conj>cr") }
    else if v as u64 >= cx.field_bits() * cx.po.e as u64 { Some("conj>=field") }
    else { None }
}
fn bound_proven(cr: u32, ud: u32, ld: u32) -> Option<&'static str> {
    if ud > cr { Some("ud>cr") } else if ld > cr { Some("ld>cr") } else { None }
}
fn first_drop(xs: &[usize], vs: &[u32]) -> Option<(usize, u32, u32)> {
    (0..vs.len().saturating_sub(1)).find(|&i| vs[i + 1] < vs[i]).map(|i| (xs[i], vs[i], vs[i + 1]))
}
fn mono_tag(xs: &[usize], series: &[(&str, Vec<u32>)]) -> String {
    for (w, vs) in series {
        if let Some((x, a, b)) = first_drop(xs, vs) { return format!("MONO-VIOLATION {w} {x} {a} {b}"); }
    }
    "mono-ok".to_string()
}

const TAB_ORACLE: &str = "~ bounds-ok mono-ok$";

fn sec_case(out: &mut Out, op: &str, cr: u32, alt: u64, cx: &Cx) {
    sec_case_with(out, op, cr, alt, cx, "~ bounds-ok$");
}

fn sec_case_with(out: &mut Out, op: &str, cr: u32, alt: u64, cx: &Cx, oracle: &str) {
    out.case(&format!("c25 {op} {cr} {}", cx.show()), oracle, || {
        let p = cx.proof();
        let v = conj(cr, alt, &p);
        let (ud, ld) = proven(cr, alt, &p);
        let bt = match bound_conj(cx, cr, v).or(bound_proven(cr, ud, ld)) {
            Some(w) => format!("BOUND-VIOLATION {w}"),
            None => "bounds-ok".to_string(),
        };
        format!("{v} {ud} {ld} {bt}")
    });
}

fn tab_conj_case(out: &mut Out, axis: char, cr: u32, alt: u64, cx: &Cx) {
    out.case(&format!("c25 tab conj {axis} {cr} {}", cx.show()), TAB_ORACLE, || {
        let xs = axis_values(axis);
        let mut p = Proof::new_dummy();
        let vs: Vec<u32> = xs.iter().map(|&x| conj(cr, alt, cx.with(axis, x).put(&mut p))).collect();
        let bt = xs.iter().zip(&vs).find_map(|(&x, &v)| bound_conj(&cx.with(axis, x), cr, v).map(|w| format!("BOUND-VIOLATION {x} {w}")))
            .unwrap_or("bounds-ok".to_string());
        format!("{} {bt} {}", vs.iter().map(|v| v.to_string()).collect::<Vec<_>>().join(","), mono_tag(&xs, &[("conj", vs.clone())]))
    });
}

fn tab_proven_case(out: &mut Out, axis: char, cr: u32, alt: u64, cx: &Cx) {
    out.case(&format!("c25 tab proven {axis} {cr} {}", cx.show()), TAB_ORACLE, || {
        let xs = axis_values(axis);
        let mut p = Proof::new_dummy();
        let vs: Vec<(u32, u32)> = xs.iter().map(|&x| proven(cr, alt, cx.with(axis, x).put(&mut p))).collect();
        let bt = xs.iter().zip(&vs).find_map(|(&x, &(ud, ld))| bound_proven(cr, ud, ld).map(|w| format!("BOUND-VIOLATION {x} {w}")))
            .unwrap_or("bounds-ok".to_string());
        let mt = mono_tag(&xs, &[("ud", vs.iter().map(|v| v.0).collect()), ("ld", vs.iter().map(|v| v.1).collect())]);
        format!("{} {bt} {mt}", vs.iter().map(|(u, l)| format!("{u}:{l}")).collect::<Vec<_>>().join(","))
    });
}

/// conjectured security on every (extension, grinding, queries) point for the given field, blowup
/// and collision resistance; neighbours compared along all three axes
fn grid_case(out: &mut Out, cr: u32, alt: u64, cx: &Cx) {
    out.case(&format!("c25 grid {cr} {}", cx.show()), "~ bounds-ok mono-ok$", || {
        let bits = cx.field_bits();
        let mut vals: Vec<u32> = Vec::with_capacity(3 * 33 * 255);
        let mut p = Proof::new_dummy();
        for e in 1..=3usize { for g in 0..=32usize { for q in 1..=255usize {
            vals.push(conj(cr, alt, cx.with('e', e).with('g', g).with('q', q).put(&mut p)));
        } } }
        let at = |e: usize, g: usize, q: usize| vals[((e - 1) * 33 + g) * 255 + (q - 1)];
        let (mut sum, mut hash, mut idx) = (0u128, 0u128, 0u128);
        let (mut bt, mut mt): (Option<String>, Option<String>) = (None, None);
        for e in 1..=3usize { for g in 0..=32usize { for q in 1..=255usize {
            let v = at(e, g, q);
            idx += 1;
            sum += v as u128;
            hash = (hash + v as u128 * idx) % 2305843009213693951;
            if bt.is_none() {
                if v as u64 > cr as u64 { bt = Some(format!("BOUND-VIOLATION {e} {g} {q} conj>cr")); }
                else if v as u64 >= bits * e as u64 { bt = Some(format!("BOUND-VIOLATION {e} {g} {q} conj>=field")); }
            }
            if mt.is_none() && q < 255 { let w = at(e, g, q + 1); if w < v { mt = Some(format!("MONO-VIOLATION q {e} {g} {q} {v} {w}")); } }
            if mt.is_none() && g < 32 { let w = at(e, g + 1, q); if w < v { mt = Some(format!("MONO-VIOLATION g {e} {g} {q} {v} {w}")); } }
            if mt.is_none() && e < 3 { let w = at(e + 1, g, q); if w < v { mt = Some(format!("MONO-VIOLATION e {e} {g} {q} {v} {w}")); } }
        } } }
        format!("sum={sum} hash={hash} {} {}", bt.unwrap_or("bounds-ok".into()), mt.unwrap_or("mono-ok".into()))
    });
}

fn validate_cases(rng: &mut Rng, out: &mut Out, cr: u32, alt: u64, cx: &Cx) {
    let p = cx.proof();
    // the reported levels (oracle (iv) recomputes the decision from THESE)
    let v = conj(cr, alt, &p);
    let (ud, ld) = proven(cr, alt, &p);
    let mut mins: Vec<u32> = vec![0, v.saturating_sub(1), v, v.saturating_add(1), cr, cr.saturating_add(1), u32::MAX, 96, 100, 128];
    mins.push(rng.below(200) as u32);
    mins.sort();
    mins.dedup();
    for &min in &mins {
        let exp = if v >= min { "ok true".to_string() } else { format!("err conj {min} {v} false") };
        out.count(if v >= min { "validate:conj-accept" } else { "validate:conj-reject" });
        out.case(&format!("c25 validate conj {min} {cr} {}", cx.show()), &exp, || {
            let a = AcceptableOptions::MinConjecturedSecurity(min);
            format!("{} {}", with_hasher!(cr, alt, validate_with(&a, &p)), with_hasher!(cr, alt, conj_ial(&p, min)))
        });
    }
    let (lo, hi) = (ud.min(ld), ud.max(ld));
    let mut mins: Vec<u32> = vec![0, lo.saturating_sub(1), lo, lo.saturating_add(1), hi.saturating_sub(1), hi, hi.saturating_add(1), cr, u32::MAX, 96, 128];
    mins.push(rng.below(200) as u32);
    mins.sort();
    mins.dedup();
    for &min in &mins {
        let acc = ld >= min || ud >= min;
        let exp = if acc { "ok true".to_string() } else { format!("err proven {min} {hi} false") };
        out.count(if acc { if ld >= min && ud >= min { "validate:proven-accept-both" } else if ld >= min { "validate:proven-accept-ld-only" } else { "validate:proven-accept-ud-only" } } else { "validate:proven-reject" });
        out.case(&format!("c25 validate proven {min} {cr} {}", cx.show()), &exp, || {
            let a = AcceptableOptions::MinProvenSecurity(min);
            format!("{} {}", with_hasher!(cr, alt, validate_with(&a, &p)), with_hasher!(cr, alt, proven_ial(&p, min)))
        });
    }
    // option sets: empty, exact, one-field-apart neighbours (each of the ten fields), mixtures
    let near = |k: usize| -> Po {
        let mut o = cx.po.clone();
        match k {
            0 => o.q = if o.q < 255 { o.q + 1 } else { 254 },
            1 => o.b = if o.b < 128 { o.b * 2 } else { 64 },
            2 => o.g = if o.g < 32 { o.g + 1 } else { 31 },
            3 => o.e = o.e % 3 + 1,
            4 => o.f = if o.f < 16 { o.f * 2 } else { 8 },
            5 => o.rd = if o.rd < 255 { o.rd * 2 + 1 } else { 127 },
            6 => o.bc = (o.bc + 1) % 3,
            7 => o.bd = (o.bd + 1) % 3,
            8 => o.np = if o.np < 16 { o.np + 1 } else { 15 },
            _ => o.hr = if o.hr < 255 { o.hr + 1 } else { 254 },
        }
        o
    };
    let mut sets: Vec<Vec<Po>> = vec![vec![], vec![cx.po.clone()]];
    for k in 0..10 { sets.push(vec![near(k)]); }
    sets.push((0..10).map(near).collect());
    let mut mixed: Vec<Po> = (0..10).map(near).collect();
    mixed.insert(rng.below(11) as usize, cx.po.clone());
    sets.push(mixed);
    sets.push(vec![near(rng.below(10) as usize), cx.po.clone(), cx.po.clone()]);
    for set in sets {
        // ORACLE: membership by comparing the ten option fields
        let member = set.iter().any(|o| *o == cx.po);
        out.count(if member { "validate:set-member" } else { "validate:set-non-member" });
        let req = format!("c25 validate set {} {}{}{cr} {}", set.len(), set.iter().map(|o| o.show()).collect::<Vec<_>>().join(" "), if set.is_empty() { "" } else { " " }, cx.show());
        out.case(&req, if member { "ok" } else { "err options" }, || {
            let a = AcceptableOptions::OptionSet(set.iter().map(|o| o.build()).collect());
            with_hasher!(cr, alt, validate_with(&a, &p))
        });
    }
}

// ---- generators ---------------------------------------------------------------------------------------

const BLOWUPS: [usize; 7] = [2, 4, 8, 16, 32, 64, 128];
/// queries: both ends, and both sides of every point where `log2(blowup) * queries` crosses the
/// grinding floor 80 (80, 40, 27, 20, 16, 14, 12) or the field / hash sizes
const QUERIES: [usize; 30] = [1, 2, 3, 7, 11, 12, 13, 14, 15, 16, 17, 19, 20, 21, 26, 27, 28, 32, 39, 40, 41, 48, 64, 79, 80, 81, 127, 128, 254, 255];
const GRINDS: [u32; 9] = [0, 1, 8, 15, 16, 20, 21, 31, 32];
const REM_DEGS: [usize; 9] = [0, 1, 3, 7, 15, 31, 63, 127, 255];
const NCS: [usize; 9] = [1, 2, 3, 4, 100, 65535, 65536, (1 << 31) + 1, u32::MAX as usize];

fn gen_po(rng: &mut Rng) -> Po {
    Po {
        q: if rng.chance(3, 4) { *rng.pick(&QUERIES) } else { rng.range(1, 255) as usize },
        b: *rng.pick(&BLOWUPS),
        g: if rng.chance(3, 4) { *rng.pick(&GRINDS) } else { rng.below(33) as u32 },
        e: rng.range(1, 3) as u8,
        f: 1 << rng.range(1, 4),
        rd: *rng.pick(&REM_DEGS),
        bc: rng.below(3) as u8,
        bd: rng.below(3) as u8,
        np: *rng.pick(&[1usize, 1, 2, 16]),
        hr: *rng.pick(&[1usize, 1, 8, 255]),
    }
}

/// a constructor-valid context; `max_log`: largest log2 of the trace length (capped so that the LDE
/// domain fits u32, as `Context::new` demands)
fn gen_cx(rng: &mut Rng, max_log: u64) -> Cx {
    let po = gen_po(rng);
    let cap = 31 - po.b.trailing_zeros() as u64;
    let lg = match rng.below(4) { 0 => 3 + rng.below(3), 1 => rng.range(3, 12), _ => rng.range(3, max_log) }.min(cap);
    let main = *rng.pick(&[1usize, 1, 2, 7, 50, 128, 254, 255]);
    let aux = if main < 255 && rng.chance(1, 3) { *rng.pick(&[1usize, 3usize.min(255 - main), 255 - main]) } else { 0 };
    Cx { fld: rng.below(3) as u8, main, aux, len: 1 << lg, nc: *rng.pick(&NCS), po, modulus: None }
}

fn pick_cr(rng: &mut Rng) -> (u32, u64) {
    if rng.chance(2, 3) { (*rng.pick(&REAL_CRS), rng.below(4)) } else { (*rng.pick(&EXTRA_CRS), 0) }
}

fn base_cx(fld: u8, b: usize) -> Cx {
    Cx { fld, main: 2, aux: 0, len: 64, nc: 4, modulus: None,
         po: Po { q: 1, b, g: 0, e: 1, f: 4, rd: 31, bc: 0, bd: 0, np: 1, hr: 1 } }
}

pub fn run(rng: &mut Rng, out: &mut Out, n: usize) {
    let n = n.max(1);
    // quick tier (n < 4): the grids of part B still visit EVERY (field, blowup, grinding, extension,
    // queries) point (bounds, neighbours, checksum); the tables with explicit values are thinned out.
    // thorough tier (n >= 4): everything exhaustive.
    let full = n >= 4;
    // ---- A. conjectured security, EVERY constructor-valid (field, blowup, grinding, extension,
    //         queries) with the real hash functions' collision resistances: q-axis tables with values
    let gs: Vec<u32> = if full { (0..=32).collect() } else { GRINDS.to_vec() };
    for fld in 0..3u8 { for &cr in &REAL_CRS { for &b in &BLOWUPS { for &g in &gs { for e in 1..=3u8 {
        let mut cx = base_cx(fld, b);
        cx.po.g = g;
        cx.po.e = e;
        out.count("conj:q-axis-table");
        tab_conj_case(out, 'q', cr, (g % 4) as u64, &cx);
    } } } } }
    // g-axis and e-axis tables at the query counts around every threshold (thorough: every count)
    let qs: Vec<usize> = if full { (1..=255).collect() } else { vec![1, 12, 13, 16, 20, 27, 40, 41, 79, 80, 81, 255] };
    let ges: Vec<u32> = if full { GRINDS.to_vec() } else { vec![0, 16, 32] };
    for fld in 0..3u8 { for &cr in &REAL_CRS { for &b in &BLOWUPS { for &q in &qs {
        let mut cx = base_cx(fld, b);
        cx.po.q = q;
        for e in 1..=3u8 { cx.po.e = e; out.count("conj:g-axis-table"); tab_conj_case(out, 'g', cr, 0, &cx); }
        for &g in &ges { cx.po.g = g; out.count("conj:e-axis-table"); tab_conj_case(out, 'e', cr, 0, &cx); }
    } } } }
    // ---- B. the complete e x g x q grid for every collision-resistance level (real + stand-in),
    //         field and blowup: bounds at every point, the three neighbours of every point
    let grid_crs: Vec<u32> = if full { REAL_CRS.iter().chain(EXTRA_CRS.iter()).copied().collect() }
        else { vec![96, 124, 128, 0, 63, 100, 256, u32::MAX] };
    for &cr in &grid_crs { for fld in 0..3u8 { for &b in &BLOWUPS {
        out.count("conj:full-grid");
        grid_case(out, cr, 0, &base_cx(fld, b));
    } } }
    // ---- C. proven + conjectured levels at single points -------------------------------------------
    // every trace length the constructors admit (2^3 .. 2^30 with blowup 2), three fields
    for lg in 3..=30u32 { for fld in 0..3u8 { for (q, b) in [(85usize, 2usize), (255, 2), (40, if lg <= 24 { 128 } else { 2 })] {
        let mut cx = base_cx(fld, b);
        cx.len = 1 << lg;
        cx.po.q = q;
        cx.po.e = 3 - fld.min(1);
        cx.po.g = 16;
        cx.po.bc = (lg % 3) as u8;
        cx.po.bd = ((lg / 3) % 3) as u8;
        out.count("sec:every-trace-length");
        sec_case(out, "sec", 128, (lg % 4) as u64, &cx);
    } } }
    // the repo's own 96/100/128-bit style configurations
    for (fld, q, b, g, e, lg, cr) in [(0u8, 85usize, 8usize, 16u32, 3u8, 18u32, 128u32), (0, 56, 8, 20, 3, 18, 128), (0, 123, 8, 16, 2, 18, 128),
        (2, 33, 8, 20, 1, 18, 128), (2, 34, 8, 20, 1, 18, 96), (0, 27, 8, 16, 2, 10, 96), (1, 195, 8, 20, 2, 20, 124), (0, 119, 8, 20, 2, 20, 128)] {
        let mut cx = base_cx(fld, b);
        cx.len = 1 << lg;
        cx.po = Po { q, b, g, e, f: 2, rd: 127, bc: 0, bd: 0, np: 1, hr: 1 };
        cx.nc = 100;
        cx.main = 96;
        out.count("sec:repo-test-style");
        sec_case(out, "sec", cr, 0, &cx);
        for (bc, bd) in [(1u8, 1u8), (2, 0), (0, 2)] { cx.po.bc = bc; cx.po.bd = bd; sec_case(out, "sec", cr, 0, &cx); }
    }
    // levels pinned by the repo's own unit test `get_100_bits_security` (linear batching, so the
    // number of committed polynomials does not enter): (ud, ld) = (100, 69); more queries: ld stays 69;
    // cubic extension with 81 queries: ld = 100
    for (q, e, pin) in [(119usize, 2u8, "~^[0-9]+ 100 69 bounds-ok$"), (150, 2, "~^[0-9]+ [0-9]+ 69 bounds-ok$"), (81, 3, "~^[0-9]+ [0-9]+ 100 bounds-ok$")] {
        let mut cx = base_cx(0, 4);
        cx.len = 1 << 20;
        cx.nc = 100;
        cx.po = Po { q, b: 4, g: 20, e, f: 2, rd: 127, bc: 0, bd: 0, np: 1, hr: 1 };
        out.count("sec:pinned-by-repo-test");
        sec_case_with(out, "sec", 128, 0, &cx, pin);
    }
    // random boundary-biased contexts
    for _ in 0..800 * n {
        let cx = gen_cx(rng, 20);
        let (cr, alt) = pick_cr(rng);
        out.count(&format!("sec:field{}", [64, 62, 128][cx.fld as usize]));
        out.count(&format!("sec:batching{}{}", cx.po.bc.min(1), cx.po.bd.min(1)));
        sec_case(out, "sec", cr, alt, &cx);
    }
    // ---- D. proven security along each axis --------------------------------------------------------
    for i in 0..12 * n {
        let cx = gen_cx(rng, if i % 4 == 0 { 20 } else { 9 });
        let (cr, alt) = pick_cr(rng);
        out.count("proven:q-axis-table");
        tab_proven_case(out, 'q', cr, alt, &cx);
    }
    for _ in 0..80 * n {
        let cx = gen_cx(rng, 20);
        let (cr, alt) = pick_cr(rng);
        out.count("proven:g-axis-table");
        tab_proven_case(out, 'g', cr, alt, &cx);
        out.count("proven:e-axis-table");
        tab_proven_case(out, 'e', cr, alt, &cx);
    }
    // ---- E. AcceptableOptions::validate -------------------------------------------------------------
    for _ in 0..40 * n {
        let cx = gen_cx(rng, 16);
        let (cr, alt) = pick_cr(rng);
        validate_cases(rng, out, cr, alt, &cx);
    }
    // ---- F. contexts as `Proof::from_bytes` accepts them: any non-empty modulus byte string ---------
    let mut moduli: Vec<Vec<u8>> = vec![vec![1], vec![2], vec![3], vec![0x7f], vec![0x80], vec![0xff], vec![0, 1], vec![5, 0, 0],
        vec![0xff, 0xff, 0xff, 0x7f], vec![0xff, 0xff, 0xff, 0xff], vec![0, 0, 0, 0, 1], vec![0xff; 8], vec![1, 0, 0, 0, 0, 0, 0, 0x80],
        vec![0xff; 16], vec![0xff; 17], vec![0xff; 32], vec![0x01; 254], vec![0xff; 254]];
    let mut m = vec![0u8; 254];
    m[0] = 1;
    moduli.push(m);
    for m in &moduli {
        for _ in 0..2 * n {
            let mut cx = gen_cx(rng, 12);
            cx.modulus = Some(m.clone());
            let (cr, alt) = pick_cr(rng);
            out.count("decoded-modulus:nonzero");
            sec_case(out, "sec", cr, alt, &cx);
            tab_conj_case(out, 'q', cr, alt, &cx);
            tab_conj_case(out, 'e', cr, alt, &cx);
        }
    }
    // an all-zero modulus must be refused by the decoder (it would give base_field_bits = 0 and make
    // `min(0, _) - 1` leave the u32 range); should it ever be accepted again, the levels are reported
    for len in [1usize, 2, 8, 16, 254, 255] {
        for &cr in &REAL_CRS {
            let cx = gen_cx(rng, 12);
            let bytes = cx.bytes_with_modulus(&vec![0u8; len]);
            out.count("decoded-modulus:zero-rejected");
            out.case(&format!("c25 seczero {cr} {}", hex(&bytes)), "decode-rejected", || match Context::read_from_bytes(&bytes) {
                Err(_) => "decode-rejected".to_string(),
                Ok(ctx) => {
                    let mut p = Proof::new_dummy();
                    p.context = ctx;
                    let v = conj(cr, 0, &p);
                    let (ud, ld) = proven(cr, 0, &p);
                    format!("{v} {ud} {ld} ACCEPTED-ZERO-MODULUS")
                },
            });
        }
    }
}
