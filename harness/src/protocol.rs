//! Protocol-level streams over generated AIRs (`genair.rs`): honest proofs verify (C01), proofs of
//! unsatisfied statements are rejected (C02), trace validation agrees with an independent checker
//! (C29).  The Lean side answers with the IDEAL verdict: it re-generates the trace from the
//! description, applies the corruptions and decides `Satisfies` (lean/Wf/Model/AirDesc.lean).
use std::marker::PhantomData;
use std::sync::{Arc, Mutex};

use winter_air::{proof::Proof, BatchingMethod, FieldExtension, ProofOptions};
use winter_crypto::{
    hashers::{Blake3_192, Blake3_256, Rp62_248, Rp64_256, RpJive64_256, Sha3_256},
    DefaultRandomCoin, ElementHasher, MerkleTree,
};
use winter_math::{fields::{f128, f62, f64}, StarkField};
use winter_prover::Prover;
use winter_utils::{Deserializable, Serializable};
use winter_verifier::{verify, AcceptableOptions};

use crate::c10::{P128, P62, P64};
use crate::genair::{build_trace, gen_instance, satisfies, GenAir, GenProver, GenTrace, Instance, PubIn, BF};
use crate::out::Out;
use crate::rng::Rng;

pub static LAST_PANIC: Mutex<String> = Mutex::new(String::new());

pub fn install_panic_hook() {
    std::panic::set_hook(Box::new(|info| {
        let msg = format!("{info}");
        if let Ok(mut g) = LAST_PANIC.lock() { *g = msg; }
    }));
}

#[derive(Clone, Debug)]
pub struct Opts { pub q: usize, pub b: usize, pub g: u32, pub e: u8, pub f: usize, pub rd: usize, pub bc: u8, pub bd: u8, pub np: usize, pub hr: usize }

impl Opts {
    pub fn build(&self) -> ProofOptions {
        let ext = match self.e { 1 => FieldExtension::None, 2 => FieldExtension::Quadratic, _ => FieldExtension::Cubic };
        let bm = |b: u8| match b { 0 => BatchingMethod::Linear, 1 => BatchingMethod::Algebraic, _ => BatchingMethod::Horner };
        ProofOptions::new(self.q, self.b, self.g, ext, self.f, self.rd, bm(self.bc), bm(self.bd)).with_partitions(self.np, self.hr)
    }
    pub fn show(&self) -> String { format!("{},{},{},{},{},{},{},{},{},{}", self.q, self.b, self.g, self.e, self.f, self.rd, self.bc, self.bd, self.np, self.hr) }
}

fn c64(v: u128) -> f64::BaseElement { f64::BaseElement::new((v % P64) as u64) }
fn c62(v: u128) -> f62::BaseElement { f62::BaseElement::new((v % P62) as u64) }
fn c128(v: u128) -> f128::BaseElement { f128::BaseElement::new(v % P128) }

pub struct Outcome { pub verdict: String, pub detail: String, pub proof_bytes: Option<Vec<u8>> }

/// prove with the real prover, serialise, deserialise, verify with the real verifier
pub fn prove_verify<B, H>(inst: &Instance, claimed: &[Vec<u128>], opts: &Opts, conv: fn(u128) -> B, p: u128, aux_corruption: Option<(usize, usize, u128)>) -> Outcome
where
    B: BF,
    H: ElementHasher<BaseField = B> + Sync,
{
    let desc = Arc::new(inst.desc.clone());
    let pub_in = PubIn { desc: desc.clone(), claimed: claimed.to_vec(), conv };
    let cols = build_trace(inst, p);
    let columns: Vec<Vec<B>> = cols.iter().map(|c| c.iter().map(|v| conv(*v)).collect()).collect();
    let options = opts.build();
    let res = std::panic::catch_unwind(std::panic::AssertUnwindSafe(|| {
        let trace = GenTrace::new(columns, desc.aux_width, desc.num_rands);
        let prover = GenProver::<B, H> { options: options.clone(), pub_in: pub_in.clone(), aux_corruption, _h: PhantomData };
        prover.prove(trace)
    }));
    let proof = match res {
        Err(_) => {
            let msg = LAST_PANIC.lock().map(|g| g.clone()).unwrap_or_default();
            return Outcome { verdict: "reject".into(), detail: format!("prover-panic: {}", msg.replace('\n', " ").chars().take(160).collect::<String>()), proof_bytes: None };
        },
        Ok(Err(e)) => return Outcome { verdict: "reject".into(), detail: format!("prover-error: {e}"), proof_bytes: None },
        Ok(Ok(p)) => p,
    };
    let bytes = proof.to_bytes();
    let proof2 = match Proof::from_bytes(&bytes) {
        Ok(p) => p,
        Err(e) => return Outcome { verdict: "reject".into(), detail: format!("own-proof-does-not-deserialize: {e}"), proof_bytes: Some(bytes) },
    };
    let acceptable = AcceptableOptions::OptionSet(vec![options.clone()]);
    let v = std::panic::catch_unwind(std::panic::AssertUnwindSafe(|| {
        verify::<GenAir<B>, H, DefaultRandomCoin<H>, MerkleTree<H>>(proof2, pub_in.clone(), &acceptable)
    }));
    match v {
        Err(_) => {
            let msg = LAST_PANIC.lock().map(|g| g.clone()).unwrap_or_default();
            Outcome { verdict: "reject".into(), detail: format!("verifier-panic: {}", msg.replace('\n', " ").chars().take(160).collect::<String>()), proof_bytes: Some(bytes) }
        },
        Ok(Err(e)) => Outcome { verdict: "reject".into(), detail: format!("verifier-error: {e}"), proof_bytes: Some(bytes) },
        Ok(Ok(())) => Outcome { verdict: "ok".into(), detail: String::new(), proof_bytes: Some(bytes) },
    }
}

pub fn run_cfg(field: &str, hasher: &str, inst: &Instance, claimed: &[Vec<u128>], opts: &Opts, auxc: Option<(usize, usize, u128)>) -> Outcome {
    match (field, hasher) {
        ("f64", "b3") => prove_verify::<f64::BaseElement, Blake3_256<f64::BaseElement>>(inst, claimed, opts, c64, P64, auxc),
        ("f64", "b192") => prove_verify::<f64::BaseElement, Blake3_192<f64::BaseElement>>(inst, claimed, opts, c64, P64, auxc),
        ("f64", "sha") => prove_verify::<f64::BaseElement, Sha3_256<f64::BaseElement>>(inst, claimed, opts, c64, P64, auxc),
        ("f64", "rp64") => prove_verify::<f64::BaseElement, Rp64_256>(inst, claimed, opts, c64, P64, auxc),
        ("f64", "rpj") => prove_verify::<f64::BaseElement, RpJive64_256>(inst, claimed, opts, c64, P64, auxc),
        ("f62", "b3") => prove_verify::<f62::BaseElement, Blake3_256<f62::BaseElement>>(inst, claimed, opts, c62, P62, auxc),
        ("f62", "sha") => prove_verify::<f62::BaseElement, Sha3_256<f62::BaseElement>>(inst, claimed, opts, c62, P62, auxc),
        ("f62", "rp62") => prove_verify::<f62::BaseElement, Rp62_248>(inst, claimed, opts, c62, P62, auxc),
        ("f128", "b3") => prove_verify::<f128::BaseElement, Blake3_256<f128::BaseElement>>(inst, claimed, opts, c128, P128, auxc),
        ("f128", "b192") => prove_verify::<f128::BaseElement, Blake3_192<f128::BaseElement>>(inst, claimed, opts, c128, P128, auxc),
        ("f128", "sha") => prove_verify::<f128::BaseElement, Sha3_256<f128::BaseElement>>(inst, claimed, opts, c128, P128, auxc),
        _ => panic!("unsupported field/hasher {field}/{hasher}"),
    }
}

pub fn modulus(field: &str) -> u128 { match field { "f64" => P64, "f62" => P62, _ => P128 } }

pub fn pick_cfg(rng: &mut Rng) -> (&'static str, &'static str) {
    *rng.pick(&[("f64", "b3"), ("f64", "b3"), ("f64", "b192"), ("f64", "sha"), ("f64", "rp64"), ("f64", "rpj"), ("f62", "b3"), ("f62", "sha"), ("f62", "rp62"),
        ("f128", "b3"), ("f128", "b192"), ("f128", "sha")])
}

/// is the trace length reducible by whole foldings down to the remainder size?  (what the FRI
/// verifier's DegreeTruncation check demands; not every (folding, remainder degree) pair fits
/// every trace length)
pub fn fri_compatible(n: usize, f: usize, rd: usize) -> bool {
    let mut d = n;
    while d > rd + 1 {
        if d % f != 0 { return false; }
        d /= f;
    }
    d >= 1
}

/// options compatible with the instance (blowup large enough for its declared degrees)
pub fn gen_opts(rng: &mut Rng, inst: &Instance, field: &str, rich: bool) -> Opts {
    let n = inst.n;
    // constraint-evaluation blowup required by the declared degrees
    let mut need = 2usize;
    for t in inst.desc.trans.iter().chain(inst.desc.aux_trans.iter()) {
        need = need.max((t.degree + t.cycles.len() - 1).next_power_of_two().max(2));
    }
    let mut b = need;
    while rich && b < 64 && rng.chance(1, 3) { b *= 2; }
    let mut f;
    let mut rd;
    loop {
        f = if rich { *rng.pick(&[2usize, 4, 4, 8, 16]) } else { *rng.pick(&[2usize, 4, 8]) };
        rd = if rich { *rng.pick(&[0usize, 1, 3, 7, 15, 31, 63, 127, 255]) } else { *rng.pick(&[3usize, 7, 15, 31]) };
        if fri_compatible(n, f, rd) { break; }
    }
    let mut q = if rich { *rng.pick(&[1usize, 2, 7, 28, 40, 64, 255]) } else { *rng.pick(&[4usize, 12, 28]) };
    // the number of queries must be smaller than the LDE domain
    while q >= n * b { q /= 2; }
    let e = match field { "f128" => rng.range(1, 2) as u8, _ => rng.range(1, 3) as u8 };
    Opts {
        q: q.max(1), b, g: if rich { *rng.pick(&[0u32, 0, 4, 8, 12]) } else { 0 }, e, f, rd,
        bc: rng.below(3) as u8, bd: rng.below(3) as u8,
        np: if rich { *rng.pick(&[1usize, 1, 2, 3, 4, 8, 16]) } else { 1 },
        hr: if rich { *rng.pick(&[1usize, 4, 8, 12]) } else { 1 },
    }
}

fn req(kind: &str, field: &str, hasher: &str, inst: &Instance, claimed_pert: Option<(usize, usize, u128)>, opts: &Opts) -> String {
    let init = inst.init.iter().map(|v| v.to_string()).collect::<Vec<_>>().join("/");
    let ov = if inst.overrides.is_empty() { "-".to_string() } else { inst.overrides.iter().map(|(r, c, v)| format!("{r}:{c}:{v}")).collect::<Vec<_>>().join("/") };
    let cp = match claimed_pert { None => "-".to_string(), Some((a, i, v)) => format!("{a}:{i}:{v}") };
    format!("{kind} {field} {hasher} {} {} {init} {ov} {cp} {}", inst.desc.text(), inst.n, opts.show())
}

fn claimed_of(inst: &Instance, pert: Option<(usize, usize, u128)>) -> Vec<Vec<u128>> {
    let mut c: Vec<Vec<u128>> = inst.desc.asserts.iter().map(|a| a.values.clone()).collect();
    if let Some((a, i, v)) = pert { c[a][i] = v; }
    c
}

/// C02 rests on the random linear combination of ALL constraints: every transition and boundary
/// constraint (and every DEEP term) must get its own coefficient — independent draws (linear), or
/// distinct consecutive powers of one drawn alpha (algebraic: ascending, horner: descending) over
/// the concatenation transition ++ boundary (trace ++ constraint columns).  The real drawing
/// functions are run on a real coin; the oracle recomputes the expectation from a clone of the coin.
pub fn run_coefficients(rng: &mut Rng, out: &mut Out, n: usize) {
    use winter_air::{ConstraintCompositionCoefficients as CC, DeepCompositionCoefficients as DC};
    use winter_crypto::RandomCoin;
    use winter_math::FieldElement;
    type B = f64::BaseElement;
    type E = winter_math::fields::QuadExtension<B>;
    type Coin = DefaultRandomCoin<Blake3_256<B>>;
    let show = |v: &[E]| v.iter().map(|e| format!("{e}")).collect::<Vec<_>>().join(",");
    for it in 0..n {
        let seed: Vec<B> = (0..4).map(|_| B::new(rng.next())).collect();
        let (t, b) = match it % 4 { 0 => (1usize, 1usize), 1 => (rng.range(1, 6) as usize, rng.range(1, 6) as usize), 2 => (rng.range(1, 40) as usize, 1), _ => (1, rng.range(1, 40) as usize) };
        for (which, method) in [("cc", "linear"), ("cc", "algebraic"), ("cc", "horner"), ("dc", "linear"), ("dc", "algebraic"), ("dc", "horner")] {
            // expectation from an independent walk over a clone of the coin
            let mut c0 = Coin::new(&seed);
            let expected: Vec<E> = match method {
                "linear" => (0..t + b).map(|_| c0.draw::<E>().unwrap()).collect(),
                _ => { let alpha: E = c0.draw().unwrap(); let mut p = vec![E::ONE; t + b]; for i in 1..t + b { p[i] = p[i - 1] * alpha; } if method == "horner" { p.reverse(); } p },
            };
            let exp_s = format!("{} | {}", show(&expected[..t]), show(&expected[t..]));
            let seed2 = seed.clone();
            out.count(&format!("coeffs:{which}:{method}"));
            out.case(&format!("c02c {which} {method} {t} {b} {}", seed.iter().map(|e| e.as_int().to_string()).collect::<Vec<_>>().join("/")), &exp_s, move || {
                let mut coin = Coin::new(&seed2);
                let (first, second) = if which == "cc" {
                    let c: CC<E> = match method { "linear" => CC::draw_linear(&mut coin, t, b), "algebraic" => CC::draw_algebraic(&mut coin, t, b), _ => CC::draw_horner(&mut coin, t, b) }.unwrap();
                    (c.transition, c.boundary)
                } else {
                    let c: DC<E> = match method { "linear" => DC::draw_linear(&mut coin, t, b), "algebraic" => DC::draw_algebraic(&mut coin, t, b), _ => DC::draw_horner(&mut coin, t, b) }.unwrap();
                    (c.trace, c.constraints)
                };
                format!("{} | {}", show(&first), show(&second))
            });
        }
    }
}

/// honest instances whose assertions are long sequences (>= 64 values: the prover's large-polynomial
/// boundary evaluator) with every first step / stride shape, under LDE blowups larger than the
/// constraint-evaluation blowup; also periodic assertions with a non-zero first step.  Shared by
/// C01 (part of its stream) and C22 (family `c22p`).
pub fn run_large_assertions(rng: &mut Rng, out: &mut Out, n: usize) {
    install_panic_hook();
    for it in 0..n {
        let (field, hasher) = pick_cfg(rng);
        let p = modulus(field);
        let logn = *[7u64, 8, 9, 8].get(it % 4).unwrap();
        let mut inst = crate::genair::gen_instance_shaped(rng, p, logn, logn, false, false);
        let nn = inst.n;
        let tr = build_trace(&inst, p);
        let col = rng.below(inst.desc.width as u64) as usize;
        // sequence with at least 64 values: stride in {2, 4, ..} with n / stride >= 64
        let max_ls = (nn / 64).trailing_zeros() as u64;
        let stride = 1usize << rng.range(1, max_ls.max(1));
        let first = match it % 3 { 0 => stride - 1, 1 => 1.min(stride - 1), _ => rng.below(stride as u64) as usize };
        let count = nn / stride;
        let steps: Vec<usize> = (0..count).map(|i| first + i * stride).collect();
        let mut asserts = vec![crate::genair::AssertD { kind: 2, col, first, stride, values: steps.iter().map(|s| tr[col][*s]).collect() }];
        // plus a single assertion on another cell so that two divisors are in play
        let (c2, s2) = ((col + 1) % inst.desc.width, if first == 0 { 1 } else { 0 });
        if !(c2 == col && steps.contains(&s2)) { asserts.push(crate::genair::AssertD { kind: 0, col: c2, first: s2, stride: 0, values: vec![tr[c2][s2]] }); }
        inst.desc.asserts = asserts;
        let mut opts = gen_opts(rng, &inst, field, false);
        // LDE blowup strictly above the constraint-evaluation blowup in two of three cases
        if it % 3 != 2 { opts.b = (opts.b * *rng.pick(&[2usize, 4, 8])).min(64); }
        while opts.q >= nn * opts.b { opts.q /= 2; }
        let claimed = claimed_of(&inst, None);
        out.count(&format!("large-seq:n{nn}:stride{stride}:first{}:b{}", if first == 0 { "=0" } else { ">0" }, opts.b));
        out.case(&req("c01", field, hasher, &inst, None, &opts), "ok", || {
            let o = run_cfg(field, hasher, &inst, &claimed, &opts, None);
            if o.verdict == "ok" { "ok".into() } else { format!("reject {}", o.detail) }
        });
    }
}

/// honest proofs at the documented maxima of the proof tables: 255 queries over a domain large
/// enough that (almost always) all 255 positions are distinct, and 255 trace columns
pub fn run_maxima(rng: &mut Rng, out: &mut Out, n: usize) {
    install_panic_hook();
    for it in 0..n {
        let (field, hasher) = *[("f128", "b3"), ("f64", "b3"), ("f64", "rp64"), ("f62", "sha")].get(it % 4).unwrap();
        let p = modulus(field);
        let logn = if it % 2 == 0 { 12 } else { 11 };
        let inst = crate::genair::gen_instance_shaped(rng, p, logn, logn, false, false);
        let mut opts = gen_opts(rng, &inst, field, false);
        opts.b = 64; opts.q = 255; opts.g = 0; opts.f = 4; opts.rd = 31; opts.np = 1; opts.hr = 1;
        if !fri_compatible(inst.n, opts.f, opts.rd) { opts.f = 2; opts.rd = 31; }
        let claimed = claimed_of(&inst, None);
        out.count("maxima:255-queries");
        out.case(&req("c01", field, hasher, &inst, None, &opts), "ok", || {
            let o = run_cfg(field, hasher, &inst, &claimed, &opts, None);
            if o.verdict == "ok" { "ok".into() } else { format!("reject {}", o.detail) }
        });
    }
}

/// C01: honest instances; the oracle is `ok`
pub fn run_c01(rng: &mut Rng, out: &mut Out, n: usize) {
    install_panic_hook();
    run_large_assertions(rng, out, (n / 8).max(3));
    run_maxima(rng, out, (n / 60).max(6));
    for it in 0..n {
        let (field, hasher) = pick_cfg(rng);
        let p = modulus(field);
        let rich = it % 4 != 0;
        let max_log = if rich { *rng.pick(&[3u64, 4, 5, 6, 7, 8]) } else { 5 };
        let inst = gen_instance(rng, p, max_log, rich);
        let opts = gen_opts(rng, &inst, field, rich);
        let claimed = claimed_of(&inst, None);
        debug_assert!(satisfies(&inst, &build_trace(&inst, p), &claimed, p));
        out.count(&format!("cfg:{field}/{hasher}"));
        out.count(&format!("n:{}", inst.n));
        out.count(&format!("ext:{}", opts.e));
        out.count(&format!("fold:{}", opts.f));
        out.count(&format!("exempt:{}", inst.desc.exemptions));
        if inst.desc.aux_width > 0 { out.count("aux-segment"); }
        if !inst.desc.periodic.is_empty() { out.count("periodic"); }
        let mut detail = String::new();
        out.case(&req("c01", field, hasher, &inst, None, &opts), "ok", || {
            let o = run_cfg(field, hasher, &inst, &claimed, &opts, None);
            detail = o.detail.clone();
            if o.verdict == "ok" { "ok".into() } else { format!("reject {}", o.detail) }
        });
        if !detail.is_empty() { out.count(&format!("rejected:{}", detail.chars().take(60).collect::<String>())); }
    }
}

/// C02: single-cell / row / column corruptions and public-input perturbations; the oracle is the
/// independent checker's verdict on the corrupted instance
pub fn run_c02(rng: &mut Rng, out: &mut Out, n: usize) {
    install_panic_hook();
    for it in 0..n {
        let (field, hasher) = pick_cfg(rng);
        let p = modulus(field);
        let rich = it % 3 != 0;
        let ml = *rng.pick(&[3u64, 4, 5, 6]);
        let mut inst = gen_instance(rng, p, ml, rich);
        let opts = gen_opts(rng, &inst, field, false);
        let w = inst.desc.width;
        let nn = inst.n;
        let e = inst.desc.exemptions;
        let mut pert = None;
        let honest = build_trace(&inst, p);
        let kind = rng.below(8);
        let class = match kind {
            0 => { inst.overrides.push((0, rng.below(w as u64) as usize, (honest[0][0] + 1) % p)); "cell-first" },
            1 => { let r = rng.range(1, (nn - e - 1).max(1) as u64) as usize; let c = rng.below(w as u64) as usize; inst.overrides.push((r, c, (honest[c][r] + 1 + rng.below(5) as u128) % p)); "cell-interior" },
            2 => { let r = nn - e; let c = rng.below(w as u64) as usize; inst.overrides.push((r, c, (honest[c][r] + 1) % p)); "cell-last-nonexempt" },
            3 => { let r = nn - 1; let c = rng.below(w as u64) as usize; inst.overrides.push((r, c, (honest[c][r] + 1) % p)); "cell-exempt" },
            4 => { let r = rng.below(nn as u64) as usize; for c in 0..w { inst.overrides.push((r, c, (honest[c][r] + 1) % p)); } "row" },
            5 => { let c = rng.below(w as u64) as usize; for r in 0..nn { if rng.chance(1, 2) { inst.overrides.push((r, c, (honest[c][r] + 1) % p)); } } "column" },
            _ => {
                let a = rng.below(inst.desc.asserts.len() as u64) as usize;
                let i = rng.below(inst.desc.asserts[a].values.len() as u64) as usize;
                pert = Some((a, i, (inst.desc.asserts[a].values[i] + 1 + rng.below(3) as u128) % p));
                "public-input"
            },
        };
        let claimed = claimed_of(&inst, pert);
        let sat = satisfies(&inst, &build_trace(&inst, p), &claimed, p);
        out.count(&format!("corruption:{class}:{}", if sat { "still-satisfying" } else { "unsatisfying" }));
        out.case(&req("c01", field, hasher, &inst, pert, &opts), if sat { "ok" } else { "reject" }, || run_cfg(field, hasher, &inst, &claimed, &opts, None).verdict);
    }
    // statements that are false only in the AUXILIARY segment: the main trace, the public inputs and
    // every main constraint are honest; the prover's auxiliary trace violates an auxiliary
    // assertion (column generated from a shifted initial value: all transitions still hold) or an
    // auxiliary transition / assertion (one cell changed).  Few main assertions, so that there are
    // at least as many auxiliary assertions as main ones in many instances.
    let mut done = 0usize;
    let mut tries = 0usize;
    while done < (n + 1) / 2 && tries < 40 * n + 40 {
        tries += 1;
        let (field, hasher) = pick_cfg(rng);
        let p = modulus(field);
        let ml = *rng.pick(&[3u64, 4, 5]);
        let mut inst = gen_instance(rng, p, ml, true);
        if inst.desc.aux_width == 0 { continue; }
        if done % 2 == 0 { inst.desc.asserts.truncate(1); }
        let opts = gen_opts(rng, &inst, field, false);
        let claimed = claimed_of(&inst, None);
        if !satisfies(&inst, &build_trace(&inst, p), &claimed, p) { continue; }
        let aw = inst.desc.aux_width;
        let (nn, e) = (inst.n, inst.desc.exemptions);
        let col = if done % 3 == 0 { aw - 1 } else { rng.below(aw as u64) as usize };
        let delta = 1 + rng.below(5) as u128;
        let (auxc, class) = match done % 4 {
            0 | 1 => ((usize::MAX, col, delta), "aux-shift"),
            2 => ((rng.range(1, (nn - e).max(2) as u64 - 1) as usize, col, delta), "aux-cell"),
            _ => ((nn - 1, col, delta), "aux-cell-last"),
        };
        // truth of the statement (mirrored by the model's `auxCorruptionSatisfied`)
        let asserted = |c: usize, r: usize| inst.desc.aux_asserts.iter().any(|a| a.col == c && a.kind == 0 && a.first == r);
        let sat = if auxc.0 == usize::MAX { !inst.desc.aux_asserts.iter().any(|a| a.col == col) }
            else { !((auxc.0 >= 1 && auxc.0 - 1 < nn - e) || asserted(col, auxc.0)) };
        out.count(&format!("corruption:{class}:{}:aux-asserts{}main", if sat { "still-satisfying" } else { "unsatisfying" },
            if inst.desc.aux_asserts.len() > inst.desc.asserts.len() { ">" } else { "<=" }));
        let auxs = format!("{}:{}:{}", if auxc.0 == usize::MAX { "shift".to_string() } else { auxc.0.to_string() }, auxc.1, auxc.2);
        out.case(&format!("{} {auxs}", req("c01", field, hasher, &inst, None, &opts)), if sat { "ok" } else { "reject" },
            || run_cfg(field, hasher, &inst, &claimed, &opts, Some(auxc)).verdict);
        done += 1;
    }
}
