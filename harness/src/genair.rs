//! AIRs as data: `AirDesc` describes a computation (transition constraints as expression trees,
//! periodic columns, assertions, exemptions, an optional auxiliary segment); `GenAir<B>` interprets
//! it as a winterfell `Air`, `GenProver<B, H>` proves it with the default prover components.
//! The same textual description is interpreted by the Lean model (lean/Wf/Model/AirDesc.lean).
use std::marker::PhantomData;
use std::sync::Arc;

use winter_air::{
    Air, AirContext, Assertion, AuxRandElements, EvaluationFrame, PartitionOptions, ProofOptions, TraceInfo,
    TransitionConstraintDegree,
};
use winter_crypto::{DefaultRandomCoin, ElementHasher, MerkleTree};
use winter_math::{ExtensibleField, ExtensionOf, FieldElement, StarkField, ToElements};

/// base fields the prover/verifier accept
pub trait BF: StarkField + ExtensibleField<2> + ExtensibleField<3> + 'static {}
impl<T: StarkField + ExtensibleField<2> + ExtensibleField<3> + 'static> BF for T {}
use winter_prover::{
    matrix::ColMatrix, CompositionPoly, CompositionPolyTrace, ConstraintCompositionCoefficients,
    DefaultConstraintCommitment, DefaultConstraintEvaluator, DefaultTraceLde,
    Prover, StarkDomain, Trace, TracePolyTable,
};

use crate::rng::Rng;

// ---------------------------------------------------------------------------------------------
// description
// ---------------------------------------------------------------------------------------------
#[derive(Clone, Debug)]
pub enum Ex {
    Cur(usize),
    Next(usize),
    Per(usize),
    K(u128),
    ACur(usize),
    ANext(usize),
    Rnd(usize),
    Add(Box<Ex>, Box<Ex>),
    Sub(Box<Ex>, Box<Ex>),
    Mul(Box<Ex>, Box<Ex>),
}

impl Ex {
    pub fn show(&self, out: &mut Vec<String>) {
        match self {
            Ex::Cur(i) => out.push(format!("c{i}")),
            Ex::Next(i) => out.push(format!("n{i}")),
            Ex::Per(i) => out.push(format!("p{i}")),
            Ex::K(v) => out.push(format!("k{v}")),
            Ex::ACur(i) => out.push(format!("a{i}")),
            Ex::ANext(i) => out.push(format!("b{i}")),
            Ex::Rnd(i) => out.push(format!("r{i}")),
            Ex::Add(a, b) => { out.push("+".into()); a.show(out); b.show(out); },
            Ex::Sub(a, b) => { out.push("-".into()); a.show(out); b.show(out); },
            Ex::Mul(a, b) => { out.push("*".into()); a.show(out); b.show(out); },
        }
    }
    pub fn text(&self) -> String {
        let mut v = Vec::new();
        self.show(&mut v);
        v.join(",")
    }
}

#[derive(Clone, Debug)]
pub struct AssertD {
    pub kind: u8, // 0 single, 1 periodic, 2 sequence
    pub col: usize,
    pub first: usize,
    pub stride: usize,
    pub values: Vec<u128>,
}

#[derive(Clone, Debug)]
pub struct Trans {
    pub ex: Ex,
    pub degree: usize,
    pub cycles: Vec<usize>,
}

#[derive(Clone, Debug, Default)]
pub struct AirDesc {
    pub width: usize,
    pub aux_width: usize,
    pub num_rands: usize,
    pub exemptions: usize,
    pub periodic: Vec<Vec<u128>>,
    pub trans: Vec<Trans>,
    pub aux_trans: Vec<Trans>,
    /// how each main column evolves: next[c] = gen[c](cur, periodic)
    pub gen: Vec<Ex>,
    /// how each aux column evolves: anext[j] = aux_gen[j](cur, acur, rand)
    pub aux_gen: Vec<Ex>,
    pub aux_init: Vec<u128>,
    pub asserts: Vec<AssertD>,
    pub aux_asserts: Vec<AssertD>,
}

fn list<T>(xs: &[T], f: impl Fn(&T) -> String, sep: &str) -> String {
    if xs.is_empty() { "-".to_string() } else { xs.iter().map(f).collect::<Vec<_>>().join(sep) }
}

impl AirDesc {
    /// one word (no spaces): `w;aw;nr;ex;per;tr;atr;gen;agen;ainit;as;aas`
    pub fn text(&self) -> String {
        let tr = |t: &Trans| format!("{}@{}@{}", t.ex.text(), t.degree, list(&t.cycles, |c| c.to_string(), "/"));
        let asd = |a: &AssertD| format!("{}:{}:{}:{}:{}", a.kind, a.col, a.first, a.stride, list(&a.values, |v| v.to_string(), "/"));
        [
            self.width.to_string(),
            self.aux_width.to_string(),
            self.num_rands.to_string(),
            self.exemptions.to_string(),
            list(&self.periodic, |p| list(p, |v| v.to_string(), "/"), "|"),
            list(&self.trans, tr, "|"),
            list(&self.aux_trans, tr, "|"),
            list(&self.gen, |e| e.text(), "|"),
            list(&self.aux_gen, |e| e.text(), "|"),
            list(&self.aux_init, |v| v.to_string(), "/"),
            list(&self.asserts, asd, "|"),
            list(&self.aux_asserts, asd, "|"),
        ]
        .join(";")
    }
}

/// evaluation of an expression over main cells `F`, aux cells / randomness `E`
pub fn eval<F, E>(ex: &Ex, cur: &[F], next: &[F], per: &[F], acur: &[E], anext: &[E], rnd: &[E], k: &dyn Fn(u128) -> F) -> E
where
    F: FieldElement,
    E: FieldElement<BaseField = F::BaseField> + ExtensionOf<F>,
{
    match ex {
        // total on purpose: a (malicious) proof may declare a trace layout the description does
        // not expect; the verifier must then reject through its checks, not through an index panic
        Ex::Cur(i) => cur.get(*i).map(|v| E::from(*v)).unwrap_or(E::ZERO),
        Ex::Next(i) => next.get(*i).map(|v| E::from(*v)).unwrap_or(E::ZERO),
        Ex::Per(i) => per.get(*i).map(|v| E::from(*v)).unwrap_or(E::ZERO),
        Ex::K(v) => E::from(k(*v)),
        Ex::ACur(i) => acur.get(*i).copied().unwrap_or(E::ZERO),
        Ex::ANext(i) => anext.get(*i).copied().unwrap_or(E::ZERO),
        Ex::Rnd(i) => rnd.get(*i).copied().unwrap_or(E::ZERO),
        Ex::Add(a, b) => eval(a, cur, next, per, acur, anext, rnd, k) + eval(b, cur, next, per, acur, anext, rnd, k),
        Ex::Sub(a, b) => eval(a, cur, next, per, acur, anext, rnd, k) - eval(b, cur, next, per, acur, anext, rnd, k),
        Ex::Mul(a, b) => eval(a, cur, next, per, acur, anext, rnd, k) * eval(b, cur, next, per, acur, anext, rnd, k),
    }
}

// ---------------------------------------------------------------------------------------------
// public inputs
// ---------------------------------------------------------------------------------------------
#[derive(Clone)]
pub struct PubIn<B: StarkField> {
    pub desc: Arc<AirDesc>,
    /// values of the main assertions, in order (the "claimed" statement)
    pub claimed: Vec<Vec<u128>>,
    pub conv: fn(u128) -> B,
}

impl<B: StarkField> ToElements<B> for PubIn<B> {
    fn to_elements(&self) -> Vec<B> {
        let mut v = vec![
            (self.conv)(self.desc.width as u128),
            (self.conv)(self.desc.trans.len() as u128),
            (self.conv)(self.desc.exemptions as u128),
        ];
        for c in &self.claimed {
            for x in c { v.push((self.conv)(*x)); }
        }
        v
    }
}

// ---------------------------------------------------------------------------------------------
// Air
// ---------------------------------------------------------------------------------------------
pub struct GenAir<B: StarkField> {
    context: AirContext<B>,
    pub_in: PubIn<B>,
}

fn degree_of(t: &Trans) -> TransitionConstraintDegree {
    if t.cycles.is_empty() { TransitionConstraintDegree::new(t.degree) } else { TransitionConstraintDegree::with_cycles(t.degree, t.cycles.clone()) }
}

fn mk_assert<B: StarkField, E: FieldElement<BaseField = B>>(a: &AssertD, values: &[u128], conv: fn(u128) -> B) -> Assertion<E> {
    let vals: Vec<E> = values.iter().map(|v| E::from(conv(*v))).collect();
    match a.kind {
        0 => Assertion::single(a.col, a.first, vals[0]),
        1 => Assertion::periodic(a.col, a.first, a.stride, vals[0]),
        _ => Assertion::sequence(a.col, a.first, a.stride, vals),
    }
}

impl<B: BF> Air for GenAir<B> {
    type BaseField = B;
    type PublicInputs = PubIn<B>;

    fn new(trace_info: TraceInfo, pub_inputs: PubIn<B>, options: ProofOptions) -> Self {
        let d = pub_inputs.desc.clone();
        let main_degrees: Vec<_> = d.trans.iter().map(degree_of).collect();
        let aux_degrees: Vec<_> = d.aux_trans.iter().map(degree_of).collect();
        let context = if d.aux_width > 0 {
            AirContext::new_multi_segment(trace_info, main_degrees, aux_degrees, d.asserts.len(), d.aux_asserts.len(), options)
        } else {
            AirContext::new(trace_info, main_degrees, d.asserts.len(), options)
        };
        let context = if d.exemptions != 1 { context.set_num_transition_exemptions(d.exemptions) } else { context };
        GenAir { context, pub_in: pub_inputs }
    }

    fn context(&self) -> &AirContext<B> {
        &self.context
    }

    fn evaluate_transition<E: FieldElement<BaseField = B>>(&self, frame: &EvaluationFrame<E>, periodic_values: &[E], result: &mut [E]) {
        let conv = self.pub_in.conv;
        let k = |v: u128| E::from(conv(v));
        for (i, t) in self.pub_in.desc.trans.iter().enumerate() {
            result[i] = eval::<E, E>(&t.ex, frame.current(), frame.next(), periodic_values, &[], &[], &[], &k);
        }
    }

    fn evaluate_aux_transition<F, E>(&self, main_frame: &EvaluationFrame<F>, aux_frame: &EvaluationFrame<E>, periodic_values: &[F], aux_rand_elements: &AuxRandElements<E>, result: &mut [E])
    where
        F: FieldElement<BaseField = B>,
        E: FieldElement<BaseField = B> + ExtensionOf<F>,
    {
        let conv = self.pub_in.conv;
        let k = |v: u128| F::from(conv(v));
        for (i, t) in self.pub_in.desc.aux_trans.iter().enumerate() {
            result[i] = eval::<F, E>(&t.ex, main_frame.current(), main_frame.next(), periodic_values, aux_frame.current(), aux_frame.next(), aux_rand_elements.rand_elements(), &k);
        }
    }

    fn get_assertions(&self) -> Vec<Assertion<B>> {
        self.pub_in.desc.asserts.iter().zip(self.pub_in.claimed.iter()).map(|(a, v)| mk_assert::<B, B>(a, v, self.pub_in.conv)).collect()
    }

    fn get_aux_assertions<E: FieldElement<BaseField = B>>(&self, _r: &AuxRandElements<E>) -> Vec<Assertion<E>> {
        self.pub_in.desc.aux_asserts.iter().map(|a| mk_assert::<B, E>(a, &a.values, self.pub_in.conv)).collect()
    }

    fn get_periodic_column_values(&self) -> Vec<Vec<B>> {
        self.pub_in.desc.periodic.iter().map(|c| c.iter().map(|v| (self.pub_in.conv)(*v)).collect()).collect()
    }
}

// ---------------------------------------------------------------------------------------------
// Trace (a column matrix plus a TraceInfo that may announce an auxiliary segment)
// ---------------------------------------------------------------------------------------------
pub struct GenTrace<B: StarkField> {
    pub info: TraceInfo,
    pub main: ColMatrix<B>,
}

impl<B: StarkField> GenTrace<B> {
    pub fn new(columns: Vec<Vec<B>>, aux_width: usize, num_rands: usize) -> Self {
        let width = columns.len();
        let length = columns[0].len();
        let info = TraceInfo::new_multi_segment(width, aux_width, num_rands, length, vec![]);
        GenTrace { info, main: ColMatrix::new(columns) }
    }
}

impl<B: StarkField> Trace for GenTrace<B> {
    type BaseField = B;

    fn info(&self) -> &TraceInfo {
        &self.info
    }

    fn main_segment(&self) -> &ColMatrix<B> {
        &self.main
    }

    fn read_main_frame(&self, row_idx: usize, frame: &mut EvaluationFrame<B>) {
        let next_row_idx = (row_idx + 1) % self.info.length();
        self.main.read_row_into(row_idx, frame.current_mut());
        self.main.read_row_into(next_row_idx, frame.next_mut());
    }
}

// ---------------------------------------------------------------------------------------------
// Prover
// ---------------------------------------------------------------------------------------------
pub struct GenProver<B: StarkField, H: ElementHasher<BaseField = B>> {
    pub options: ProofOptions,
    pub pub_in: PubIn<B>,
    /// (row, aux column, delta): corruption applied to the honestly built auxiliary trace
    pub aux_corruption: Option<(usize, usize, u128)>,
    pub _h: PhantomData<H>,
}

impl<B, H> Prover for GenProver<B, H>
where
    B: BF,
    H: ElementHasher<BaseField = B> + Sync,
{
    type BaseField = B;
    type Air = GenAir<B>;
    type Trace = GenTrace<B>;
    type HashFn = H;
    type VC = MerkleTree<H>;
    type RandomCoin = DefaultRandomCoin<H>;
    type TraceLde<E: FieldElement<BaseField = B>> = DefaultTraceLde<E, H, MerkleTree<H>>;
    type ConstraintCommitment<E: FieldElement<BaseField = B>> = DefaultConstraintCommitment<E, H, MerkleTree<H>>;
    type ConstraintEvaluator<'a, E: FieldElement<BaseField = B>> = DefaultConstraintEvaluator<'a, GenAir<B>, E>;

    fn get_pub_inputs(&self, _trace: &Self::Trace) -> PubIn<B> {
        self.pub_in.clone()
    }

    fn options(&self) -> &ProofOptions {
        &self.options
    }

    fn new_trace_lde<E: FieldElement<BaseField = B>>(&self, trace_info: &TraceInfo, main_trace: &ColMatrix<B>, domain: &StarkDomain<B>, partition_option: PartitionOptions) -> (Self::TraceLde<E>, TracePolyTable<E>) {
        DefaultTraceLde::new(trace_info, main_trace, domain, partition_option)
    }

    fn new_evaluator<'a, E: FieldElement<BaseField = B>>(&self, air: &'a GenAir<B>, aux_rand_elements: Option<AuxRandElements<E>>, composition_coefficients: ConstraintCompositionCoefficients<E>) -> Self::ConstraintEvaluator<'a, E> {
        DefaultConstraintEvaluator::new(air, aux_rand_elements, composition_coefficients)
    }

    fn build_constraint_commitment<E: FieldElement<BaseField = B>>(&self, composition_poly_trace: CompositionPolyTrace<E>, num_constraint_composition_columns: usize, domain: &StarkDomain<B>, partition_options: PartitionOptions) -> (Self::ConstraintCommitment<E>, CompositionPoly<E>) {
        DefaultConstraintCommitment::new(composition_poly_trace, num_constraint_composition_columns, domain, partition_options)
    }

    fn build_aux_trace<E: FieldElement<BaseField = B>>(&self, main_trace: &GenTrace<B>, aux_rand_elements: &AuxRandElements<E>) -> ColMatrix<E> {
        let d = &self.pub_in.desc;
        let n = main_trace.length();
        let conv = self.pub_in.conv;
        let k = |v: u128| conv(v);
        let rnd = aux_rand_elements.rand_elements();
        // `aux_corruption = (usize::MAX, col, delta)`: the column is generated from a shifted initial
        // value (all transitions hold, only an assertion on the column is violated);
        // `(row, col, delta)` otherwise: one cell is changed after generation
        let shift = |j: usize| match self.aux_corruption { Some((r, c, dl)) if r == usize::MAX && c == j => E::from(conv(dl)), _ => E::ZERO };
        let mut cols: Vec<Vec<E>> = (0..d.aux_width).map(|j| { let mut c = Vec::with_capacity(n); c.push(E::from(conv(d.aux_init[j])) + shift(j)); c }).collect();
        let mut cur = vec![B::ZERO; d.width];
        let nxt = vec![B::ZERO; d.width];
        for step in 0..n - 1 {
            main_trace.main.read_row_into(step, &mut cur);
            let acur: Vec<E> = cols.iter().map(|c| c[step]).collect();
            let per: Vec<B> = d.periodic.iter().map(|p| conv(p[step % p.len()])).collect();
            for j in 0..d.aux_width {
                let v = eval::<B, E>(&d.aux_gen[j], &cur, &nxt, &per, &acur, &[], rnd, &k);
                cols[j].push(v);
            }
        }
        if let Some((row, col, delta)) = self.aux_corruption {
            if row != usize::MAX { cols[col][row] += E::from(conv(delta)); }
        }
        ColMatrix::new(cols)
    }
}

// ---------------------------------------------------------------------------------------------
// instance generation
// ---------------------------------------------------------------------------------------------
pub struct Instance {
    pub desc: AirDesc,
    pub n: usize,
    pub init: Vec<u128>,
    /// last rows (after the first non-exempt transitions) replaced by these values: (row, col, value)
    pub overrides: Vec<(usize, usize, u128)>,
}

fn addm(a: u128, b: u128, p: u128) -> u128 { crate::c10::addmod(a, b, p) }
fn subm(a: u128, b: u128, p: u128) -> u128 { crate::c10::submod(a, b, p) }
fn mulm(a: u128, b: u128, p: u128) -> u128 { crate::c10::mulmod(a, b, p) }

/// canonical-value evaluation (used to build traces and assertion values)
pub fn eval_canon(ex: &Ex, cur: &[u128], next: &[u128], per: &[u128], p: u128) -> u128 {
    match ex {
        Ex::Cur(i) => cur[*i],
        Ex::Next(i) => next[*i],
        Ex::Per(i) => per[*i],
        Ex::K(v) => *v % p,
        Ex::ACur(_) | Ex::ANext(_) | Ex::Rnd(_) => panic!("aux term in main expression"),
        Ex::Add(a, b) => addm(eval_canon(a, cur, next, per, p), eval_canon(b, cur, next, per, p), p),
        Ex::Sub(a, b) => subm(eval_canon(a, cur, next, per, p), eval_canon(b, cur, next, per, p), p),
        Ex::Mul(a, b) => mulm(eval_canon(a, cur, next, per, p), eval_canon(b, cur, next, per, p), p),
    }
}

/// the main trace as canonical values, column-major; rows follow `gen`, then overrides are applied
pub fn build_trace(inst: &Instance, p: u128) -> Vec<Vec<u128>> {
    let d = &inst.desc;
    let mut cols: Vec<Vec<u128>> = (0..d.width).map(|c| vec![inst.init[c]]).collect();
    for step in 0..inst.n - 1 {
        let cur: Vec<u128> = cols.iter().map(|c| c[step]).collect();
        let per: Vec<u128> = d.periodic.iter().map(|q| q[step % q.len()]).collect();
        let mut nxt = vec![0u128; d.width];
        for c in 0..d.width {
            nxt[c] = eval_canon(&d.gen[c], &cur, &nxt, &per, p);
        }
        for c in 0..d.width { cols[c].push(nxt[c]); }
    }
    for &(row, col, v) in &inst.overrides { cols[col][row] = v; }
    cols
}

fn small(rng: &mut Rng, p: u128) -> u128 {
    match rng.below(4) { 0 => rng.below(5) as u128, 1 => p - 1 - rng.below(3) as u128, _ => rng.next128() % p }
}

/// random AIR whose transition function is explicit, so that a satisfying trace exists by
/// construction.  `max_log` bounds the trace length; `rich` enables periodic columns, aux segment,
/// higher degrees, several exemptions and all assertion kinds.
pub fn gen_instance(rng: &mut Rng, p: u128, max_log: u64, rich: bool) -> Instance {
    let long = rich && rng.chance(1, 4);
    gen_instance_shaped(rng, p, 3, max_log, rich, long)
}

/// as `gen_instance` with the trace length drawn from 2^min_log..=2^max_log; `long_cycles` allows
/// periodic columns with cycle lengths up to the trace length (and guarantees one periodic column)
pub fn gen_instance_shaped(rng: &mut Rng, p: u128, min_log: u64, max_log: u64, rich: bool, long_cycles: bool) -> Instance {
    let n = 1usize << rng.range(min_log, max_log);
    let width = if rich { *rng.pick(&[1usize, 2, 3, 4, 7, 8, 9]) } else { rng.range(1, 3) as usize };
    let nper = if long_cycles { rng.range(1, 2) as usize } else if rich { rng.below(3) as usize } else { 0 };
    let periodic: Vec<Vec<u128>> = (0..nper).map(|_| {
        let logn = n.trailing_zeros() as u64;
        let cap = if long_cycles && rng.chance(2, 3) { logn } else { logn.min(4) };
        let len = 1usize << (if long_cycles && rng.chance(1, 3) { cap } else { rng.range(1, cap) });
        (0..len).map(|_| small(rng, p)).collect()
    }).collect();
    let mut gen = Vec::new();
    let mut trans = Vec::new();
    // column 0 may be a constant column (supports periodic assertions)
    let const_col = rich && rng.chance(1, 2);
    for c in 0..width {
        if c == 0 && const_col {
            gen.push(Ex::Cur(0));
            trans.push(Trans { ex: Ex::Sub(Box::new(Ex::Next(0)), Box::new(Ex::Cur(0))), degree: 1, cycles: vec![] });
            continue;
        }
        let deg = if rich { *rng.pick(&[1usize, 1, 2, 2, 3, 4]) } else { rng.range(1, 2) as usize };
        // top monomial: product of `deg` current cells, optionally times one periodic value
        let mut top = Ex::Cur(rng.below(width as u64) as usize);
        for _ in 1..deg { top = Ex::Mul(Box::new(top), Box::new(Ex::Cur(rng.below(width as u64) as usize))); }
        let mut cycles = vec![];
        if nper > 0 && (rng.chance(1, 2) || (long_cycles && c + 1 == width)) {
            let k = rng.below(nper as u64) as usize;
            cycles.push(periodic[k].len());
            top = Ex::Mul(Box::new(top), Box::new(Ex::Per(k)));
        }
        // lower terms: a linear term in another cell (possibly an already computed next cell) + constant
        let mut f = Ex::Add(Box::new(top), Box::new(Ex::K(small(rng, p))));
        if deg > 1 || rng.chance(1, 2) {
            let lin = if c > 0 && rng.chance(1, 3) { Ex::Next(rng.below(c as u64) as usize) } else { Ex::Cur(rng.below(width as u64) as usize) };
            f = Ex::Add(Box::new(f), Box::new(Ex::Mul(Box::new(Ex::K(small(rng, p))), Box::new(lin))));
        }
        trans.push(Trans { ex: Ex::Sub(Box::new(Ex::Next(c)), Box::new(f.clone())), degree: deg, cycles });
        gen.push(f);
    }
    // number of exemptions: within what `AirContext::set_num_transition_exemptions` accepts
    // (at most n/2 + 1 and small enough for the composition polynomial to fit the ce domain)
    let blow = |t: &Trans| (t.degree + t.cycles.len() - 1).next_power_of_two().max(2);
    let evdeg = |t: &Trans| { let mut d = t.degree * (n - 1); for c in &t.cycles { d += (n / c) * (c - 1); } d };
    let ce_blowup = trans.iter().map(blow).max().unwrap().max(if rich { 2 } else { 2 });
    let max_e = trans.iter().map(|t| n * ce_blowup - 1 + n - evdeg(t)).min().unwrap().min(n / 2 + 1);
    let want_e = if rich { *rng.pick(&[1usize, 1, 2, 3, 4]) } else { 1 };
    let exemptions = want_e.min(max_e).max(1);
    let init: Vec<u128> = (0..width).map(|_| small(rng, p)).collect();
    let mut inst = Instance { desc: AirDesc { width, exemptions, periodic, trans, gen, ..Default::default() }, n, init, overrides: vec![] };
    // the exempt steps need not follow the transition function: scramble the rows after the last
    // constrained transition (transitions from steps n-exemptions.. are exempt); the constant
    // column (if any) stays constant so that periodic assertions on it remain valid
    if exemptions > 1 && rng.chance(2, 3) {
        for row in (n - exemptions + 1)..n {
            for c in 0..width { if !(c == 0 && const_col) { inst.overrides.push((row, c, small(rng, p))); } }
        }
    }
    // auxiliary segment: running sums / products driven by random elements
    if rich && rng.chance(1, 3) {
        let aw = rng.range(1, 2) as usize;
        let nr = rng.range(1, 3) as usize;
        inst.desc.aux_width = aw;
        inst.desc.num_rands = nr;
        for j in 0..aw {
            let r = Ex::Rnd(rng.below(nr as u64) as usize);
            let cell = Ex::Cur(rng.below(width as u64) as usize);
            if rng.chance(1, 2) {
                // anext = acur + r * cell   (degree 1)
                let f = Ex::Add(Box::new(Ex::ACur(j)), Box::new(Ex::Mul(Box::new(r), Box::new(cell))));
                inst.desc.aux_trans.push(Trans { ex: Ex::Sub(Box::new(Ex::ANext(j)), Box::new(f.clone())), degree: 1, cycles: vec![] });
                inst.desc.aux_gen.push(f);
                inst.desc.aux_init.push(0);
            } else {
                // anext = acur * (cell + r)  (degree 2)
                let f = Ex::Mul(Box::new(Ex::ACur(j)), Box::new(Ex::Add(Box::new(cell), Box::new(r))));
                inst.desc.aux_trans.push(Trans { ex: Ex::Sub(Box::new(Ex::ANext(j)), Box::new(f.clone())), degree: 2, cycles: vec![] });
                inst.desc.aux_gen.push(f);
                inst.desc.aux_init.push(1);
            }
            inst.desc.aux_asserts.push(AssertD { kind: 0, col: j, first: 0, stride: 0, values: vec![inst.desc.aux_init[j]] });
        }
    }
    // assertions, with values read off the trace
    let tr = build_trace(&inst, p);
    let mut asserts: Vec<AssertD> = Vec::new();
    let mut used: Vec<(usize, usize)> = Vec::new();
    let nas = 1 + rng.below(if rich { 4 } else { 2 }) as usize;
    for _ in 0..nas {
        let col = rng.below(width as u64) as usize;
        let kind = if !rich { 0 } else { rng.below(3) as u8 };
        let (first, stride, count) = match kind {
            0 => (*rng.pick(&[0usize, 0, n - 1, n / 2, 1]), 0usize, 1usize),
            _ => { let stride = 1usize << rng.range(1, n.trailing_zeros() as u64); (rng.below(stride as u64) as usize, stride, n / stride) },
        };
        let steps: Vec<usize> = (0..count).map(|i| first + i * stride.max(1) * (if kind == 0 { 0 } else { 1 })).collect();
        if steps.iter().any(|s| used.contains(&(col, *s))) { continue; }
        if kind == 1 {
            // a periodic assertion needs equal values at all its steps
            if !steps.iter().all(|s| tr[col][*s] == tr[col][steps[0]]) { continue; }
        }
        let values: Vec<u128> = match kind { 1 | 0 => vec![tr[col][steps[0]]], _ => steps.iter().map(|s| tr[col][*s]).collect() };
        if kind == 2 && values.len() < 2 { continue; }
        for s in &steps { used.push((col, *s)); }
        asserts.push(AssertD { kind, col, first, stride, values });
    }
    if asserts.is_empty() {
        asserts.push(AssertD { kind: 0, col: 0, first: 0, stride: 0, values: vec![tr[0][0]] });
    }
    inst.desc.asserts = asserts;
    inst
}

/// independent checker: does the trace satisfy every assertion and every transition constraint on
/// the non-exempt steps?  (main segment only)
pub fn satisfies(inst: &Instance, tr: &[Vec<u128>], claimed: &[Vec<u128>], p: u128) -> bool {
    let d = &inst.desc;
    let n = inst.n;
    for (a, vals) in d.asserts.iter().zip(claimed) {
        let count = match a.kind { 0 => 1, _ => n / a.stride };
        for i in 0..count {
            let step = if a.kind == 0 { a.first } else { a.first + i * a.stride };
            let want = if a.kind == 2 { vals[i] } else { vals[0] };
            if tr[a.col][step] != want % p { return false; }
        }
    }
    for step in 0..n - d.exemptions {
        let cur: Vec<u128> = tr.iter().map(|c| c[step]).collect();
        let nxt: Vec<u128> = tr.iter().map(|c| c[(step + 1) % n]).collect();
        let per: Vec<u128> = d.periodic.iter().map(|q| q[step % q.len()]).collect();
        for t in &d.trans {
            if eval_canon(&t.ex, &cur, &nxt, &per, p) != 0 { return false; }
        }
    }
    true
}
