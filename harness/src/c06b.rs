//! C06 bookkeeping probes: the REAL work-splitting code observed under explicit thread counts.
//!
//! family `c06b` (answered by the Lean model `Wf/Model/ParBook.lean`):
//!   `c06b plan <len> <min> <threads>` / `c06b plan2 <len> <threads>`
//!       the public macro `batch_iter_mut!` (three- / two-argument arm) of winter-utils run inside a
//!       rayon pool of `<threads>` threads; answer = the `(offset, length)` of every batch the closure
//!       saw (`off:len;..`), after checking that every element was visited exactly once;
//!   `c06b eval|evalx f64 <log n> <log ce_blowup> <log lde_blowup> <log cycle|-> <threads>`
//!       the public `DefaultConstraintEvaluator::evaluate` run inside such a pool on a probing
//!       `TraceLde` (records the LDE step of every frame read; a fresh, zero-initialised frame buffer
//!       marks the start of a fragment) and a probing `Air` (records the periodic value handed to
//!       `evaluate_transition` for every row).  `ConstraintEvaluationTable::fragments`,
//!       `PeriodicValueTable` and `acc_column` are private to winter-prover; this is how their
//!       index bookkeeping is observed.  Answer `frags=<off:rows;..> lde=<digest> per=<digest>`:
//!       fragments as seen by the probe, FNV digest of the LDE steps in global row order, FNV digest
//!       of the periodic TABLE ROW each row received (the value is mapped back to the row of an
//!       independently evaluated table: `polynom::eval` of the column polynomial at
//!       `(offset * g^r)^(n / cycle)`).
//! The request lines carry the thread count and are the same in every build.  The serial build has
//! no rayon: for `<threads> = 1` it runs the real (serial) code, for other thread counts it answers
//! the `plan` / `frags=` part with the DOCUMENTED plan (`documented_plan` / `documented_frags`
//! below, written from the doc comments independently of the Lean model) while the `lde=` / `per=`
//! digests are always the real ones (they must not depend on the split).  The check driver compares
//! serial answers with the Lean model and the concurrent variant's answers with the serial ones,
//! so that in the concurrent variant REAL plan = documented plan = MODEL plan.
//!
//! family `c06c` (oracle-only, cross-build): `c06c comb ..` = digest of the composition-polynomial
//! trace returned by `evaluate` (after `combine()` / `acc_column`) for the same probes; the
//! concurrent build under every listed pool size must reproduce the serial build's digest.
use std::cell::Cell;
use std::collections::HashMap;
use std::sync::Mutex;

use winter_air::{
    Air, AirContext, Assertion, BatchingMethod, ConstraintCompositionCoefficients, EvaluationFrame, FieldExtension,
    ProofOptions, TraceInfo, TransitionConstraintDegree,
};
use winter_crypto::{hashers::Blake3_256, Hasher, MerkleTree};
use winter_math::{fields::f64::BaseElement as B, polynom, FieldElement, StarkField};
use winter_prover::{matrix::ColMatrix, ConstraintEvaluator, DefaultConstraintEvaluator, StarkDomain, TraceLde};
use winter_utils::batch_iter_mut;
#[cfg(feature = "concurrent")]
use winter_utils::iterators::*;

use crate::out::Out;
use crate::rng::Rng;

pub const THREADS: [usize; 9] = [1, 2, 3, 5, 6, 7, 8, 12, 16];

// ---------------------------------------------------------------------------------------------
// running something under a given rayon thread count
// ---------------------------------------------------------------------------------------------
#[cfg(feature = "concurrent")]
fn in_pool<R: Send>(threads: usize, f: impl FnOnce() -> R + Send) -> R {
    use std::sync::Arc;
    use winter_utils::rayon::{ThreadPool, ThreadPoolBuilder};
    // the pool of the last requested size is kept (requests are grouped by thread count); only one
    // pool is alive at a time so that the address-space limit of the check driver is not an issue.
    // `rayon::current_num_threads()` inside `install` is the size of THIS pool, whatever
    // RAYON_NUM_THREADS says.
    static POOL: Mutex<Option<(usize, Arc<ThreadPool>)>> = Mutex::new(None);
    let pool = {
        let mut slot = POOL.lock().unwrap_or_else(|e| e.into_inner());
        match &*slot {
            Some((t, p)) if *t == threads => p.clone(),
            _ => {
                *slot = None; // drop the previous pool first
                let stack = if threads > 64 { 256 << 10 } else { 1 << 20 };
                let built = ThreadPoolBuilder::new().num_threads(threads).stack_size(stack).build();
                let p = match built {
                    Ok(p) => Arc::new(p),
                    Err(e) => {
                        drop(slot);
                        panic!("HARNESS: cannot build a rayon pool of {threads} threads: {e}");
                    },
                };
                *slot = Some((threads, p.clone()));
                p
            },
        }
    };
    pool.install(|| {
        assert_eq!(rayon_num_threads(), threads, "HARNESS: pool size");
        f()
    })
}
#[cfg(not(feature = "concurrent"))]
fn in_pool<R: Send>(_threads: usize, f: impl FnOnce() -> R + Send) -> R {
    f()
}

/// runs `f`; a panic whose message contains `expected` (the documented assertion) is answered
/// `abort`, any other panic (e.g. a harness resource problem) is reported with its message
fn abort_only_on<R>(expected: &str, f: impl FnOnce() -> R, show: impl FnOnce(R) -> String) -> String {
    match std::panic::catch_unwind(std::panic::AssertUnwindSafe(f)) {
        Ok(r) => show(r),
        Err(e) => {
            let msg = e.downcast_ref::<String>().cloned().or_else(|| e.downcast_ref::<&str>().map(|s| s.to_string())).unwrap_or_default();
            if msg.contains(expected) { "abort".into() } else { format!("panic: {msg}") }
        },
    }
}

/// glibc gives every thread its own 64 MiB malloc arena (address space, not memory): with the 8 GiB
/// address-space limit of the check driver a 600-thread pool could not be created; cap the arenas
#[cfg(all(feature = "concurrent", target_os = "linux", target_env = "gnu"))]
fn cap_malloc_arenas() {
    extern "C" {
        fn mallopt(param: i32, value: i32) -> i32;
    }
    const M_ARENA_MAX: i32 = -8;
    unsafe { mallopt(M_ARENA_MAX, 4); }
}
#[cfg(not(all(feature = "concurrent", target_os = "linux", target_env = "gnu")))]
fn cap_malloc_arenas() {}

/// does this build execute the request for real? (the serial build has no thread count)
fn real(threads: usize) -> bool {
    cfg!(feature = "concurrent") || threads == 1
}

fn show_plan(mut cs: Vec<(usize, usize)>) -> String {
    cs.sort();
    cs.iter().map(|(o, l)| format!("{o}:{l}")).collect::<Vec<_>>().join(";")
}

fn fnv(xs: impl Iterator<Item = u64>) -> u64 {
    let mut h = 0xcbf29ce484222325u64;
    for x in xs {
        h = (h ^ x).wrapping_mul(0x100000001b3);
    }
    h
}

// ---------------------------------------------------------------------------------------------
// batch_iter_mut!
// ---------------------------------------------------------------------------------------------
/// documented behaviour of the concurrent macro: batches of `len / threads.next_power_of_two()`
/// consecutive elements, the whole slice as one batch when that is below the minimum batch size
fn documented_plan(len: usize, min: usize, threads: usize) -> String {
    let bs = len / threads.next_power_of_two();
    if bs < min {
        return format!("0:{len}");
    }
    let mut v = vec![];
    let mut off = 0;
    while off < len {
        v.push((off, bs.min(len - off)));
        off += bs;
    }
    show_plan(v)
}

fn real_plan(len: usize, min: Option<usize>, threads: usize) -> String {
    abort_only_on("chunk_size must not be zero", || in_pool(threads, || {
        let mut data = vec![0u32; len];
        let seen: Mutex<Vec<(usize, usize)>> = Mutex::new(vec![]);
        match min {
            None => {
                batch_iter_mut!(&mut data, |batch: &mut [u32], off: usize| {
                    seen.lock().unwrap().push((off, batch.len()));
                    for x in batch.iter_mut() {
                        *x += 1;
                    }
                });
            },
            Some(min) => {
                let _ = min; // the serial arm of the macro does not look at it
                batch_iter_mut!(&mut data, min, |batch: &mut [u32], off: usize| {
                    seen.lock().unwrap().push((off, batch.len()));
                    for x in batch.iter_mut() {
                        *x += 1;
                    }
                });
            },
        }
        if data.iter().any(|&x| x != 1) {
            return "some element not visited exactly once".to_string();
        }
        show_plan(seen.into_inner().unwrap())
    }), |s| s)
}

fn plan_case(out: &mut Out, len: usize, min: Option<usize>, threads: usize) {
    let doc = documented_plan(len, min.unwrap_or(1), threads);
    let req = match min {
        Some(m) => format!("c06b plan {len} {m} {threads}"),
        None => format!("c06b plan2 {len} {threads}"),
    };
    out.count(&format!("plan:{}:threads={threads}", if min.is_some() { "arm3" } else { "arm2" }));
    out.count(if real(threads) { "plan:real-macro" } else { "plan:serial-build-answers-documented-plan" });
    out.case(&req, &doc, || if real(threads) { real_plan(len, min, threads) } else { doc.clone() });
}

// ---------------------------------------------------------------------------------------------
// probes for DefaultConstraintEvaluator::evaluate
// ---------------------------------------------------------------------------------------------
#[derive(Clone, Copy, PartialEq, Eq, Hash, Debug)]
pub struct Cfg {
    log_n: u32,
    log_ceb: u32,
    log_ldeb: u32,
    log_cycle: Option<u32>,
}

impl Cfg {
    fn n(&self) -> usize { 1 << self.log_n }
    fn ce(&self) -> usize { self.n() << self.log_ceb }
    fn lde(&self) -> usize { self.n() << self.log_ldeb }
    fn shift(&self) -> u32 { self.log_ldeb - self.log_ceb }
    fn words(&self) -> String {
        format!("f64 {} {} {} {}", self.log_n, self.log_ceb, self.log_ldeb,
            self.log_cycle.map(|c| c.to_string()).unwrap_or("-".into()))
    }
    /// cycle values: a fixed pseudo-random sequence (part of the request's meaning, not of the seed)
    fn cycle_values(&self) -> Option<Vec<B>> {
        self.log_cycle.map(|lc| {
            let mut x = 0x9E3779B97F4A7C15u64 ^ ((self.log_n as u64) << 8) ^ lc as u64;
            (0..1usize << lc).map(|_| {
                x = x.wrapping_mul(6364136223846793005).wrapping_add(1442695040888963407);
                B::new(x >> 3)
            }).collect()
        })
    }
}

pub struct ProbeInputs { cfg: Cfg }
impl winter_math::ToElements<B> for ProbeInputs {
    fn to_elements(&self) -> Vec<B> { vec![] }
}

/// rows seen by `evaluate_transition`: (marker written by the probe LDE = lde step + 1, periodic value)
static AIR_LOG: Mutex<Vec<(u64, Option<u64>)>> = Mutex::new(Vec::new());

pub struct ProbeAir { context: AirContext<B>, cfg: Cfg }

impl Air for ProbeAir {
    type BaseField = B;
    type PublicInputs = ProbeInputs;

    fn new(trace_info: TraceInfo, pub_inputs: ProbeInputs, options: ProofOptions) -> Self {
        let cfg = pub_inputs.cfg;
        // declared degree such that ce_blowup_factor = 2^log_ceb (degree.rs: base + #cycles - 1)
        let degree = match cfg.log_cycle {
            Some(lc) => TransitionConstraintDegree::with_cycles(1 << cfg.log_ceb, vec![1 << lc]),
            None => TransitionConstraintDegree::new((1 << cfg.log_ceb) + 1),
        };
        ProbeAir { context: AirContext::new(trace_info, vec![degree], 1, options), cfg }
    }
    fn context(&self) -> &AirContext<B> { &self.context }
    fn evaluate_transition<E: FieldElement<BaseField = B>>(&self, frame: &EvaluationFrame<E>, periodic_values: &[E], result: &mut [E]) {
        let marker = frame.current()[0].base_element(0).as_int();
        let per = periodic_values.first().map(|v| v.base_element(0).as_int());
        AIR_LOG.lock().unwrap().push((marker, per));
        result[0] = frame.current()[1] * frame.next()[1] + frame.next()[0] + periodic_values.first().copied().unwrap_or(E::ONE);
    }
    fn get_assertions(&self) -> Vec<Assertion<B>> { vec![Assertion::single(1, 0, B::ONE)] }
    fn get_periodic_column_values(&self) -> Vec<Vec<B>> { self.cfg.cycle_values().into_iter().collect() }
}

struct Frag { first_lde_step: usize, lde_steps: Vec<usize> }
thread_local! { static CUR_FRAG: Cell<usize> = const { Cell::new(usize::MAX) }; }

/// a `TraceLde` whose rows are a fixed function of the LDE step and which records how it is read
pub struct ProbeLde { info: TraceInfo, cfg: Cfg, frags: Mutex<Vec<Frag>> }

fn cell(lde_step: usize, col: usize) -> B {
    if col == 0 { B::new(lde_step as u64 + 1) }
    else { B::new(((lde_step as u64 + 1).wrapping_mul(0x9E3779B97F4A7C15) >> 7) + col as u64) }
}

impl TraceLde<B> for ProbeLde {
    type HashFn = Blake3_256<B>;
    type VC = MerkleTree<Blake3_256<B>>;

    fn get_main_trace_commitment(&self) -> <Self::HashFn as Hasher>::Digest { unimplemented!() }
    fn set_aux_trace(&mut self, _aux: &ColMatrix<B>, _domain: &StarkDomain<B>) -> (ColMatrix<B>, <Self::HashFn as Hasher>::Digest) { unimplemented!() }
    fn read_main_trace_frame_into(&self, lde_step: usize, frame: &mut EvaluationFrame<B>) {
        // `EvaluationFrame::new` zero-initialises; this probe never writes a zero into column 0
        let fresh = frame.current()[0] == B::ZERO;
        let next_step = (lde_step + (1 << self.cfg.log_ldeb)) % self.cfg.lde();
        for c in 0..2 {
            frame.current_mut()[c] = cell(lde_step, c);
            frame.next_mut()[c] = cell(next_step, c);
        }
        let mut frags = self.frags.lock().unwrap();
        if fresh {
            CUR_FRAG.with(|c| c.set(frags.len()));
            frags.push(Frag { first_lde_step: lde_step, lde_steps: vec![lde_step] });
        } else {
            let i = CUR_FRAG.with(|c| c.get());
            frags[i].lde_steps.push(lde_step);
        }
    }
    fn read_aux_trace_frame_into(&self, _lde_step: usize, _frame: &mut EvaluationFrame<B>) { unimplemented!() }
    fn query(&self, _positions: &[usize]) -> Vec<winter_air::proof::Queries> { unimplemented!() }
    fn trace_len(&self) -> usize { self.cfg.lde() }
    fn blowup(&self) -> usize { 1 << self.cfg.log_ldeb }
    fn trace_info(&self) -> &TraceInfo { &self.info }
}

struct Observed { frags: Vec<(usize, Vec<usize>)>, rows: Vec<(u64, Option<u64>)>, comb: Vec<B> }

/// runs the real evaluator on the probes inside a pool of `threads` threads
fn observe(cfg: Cfg, threads: usize) -> Observed {
    let info = TraceInfo::new(2, cfg.n());
    let options = ProofOptions::new(8, 1 << cfg.log_ldeb, 0, FieldExtension::None, 4, 7, BatchingMethod::Linear, BatchingMethod::Linear);
    let air = ProbeAir::new(info.clone(), ProbeInputs { cfg }, options);
    assert_eq!(air.ce_domain_size(), cfg.ce(), "probe AIR has another constraint evaluation domain");
    assert_eq!(air.lde_domain_size(), cfg.lde());
    let domain = StarkDomain::new(&air);
    let lde = ProbeLde { info, cfg, frags: Mutex::new(vec![]) };
    let coef = ConstraintCompositionCoefficients { transition: vec![B::new(3)], boundary: vec![B::new(5)] };
    AIR_LOG.lock().unwrap().clear();
    let comb = in_pool(threads, || {
        let evaluator = DefaultConstraintEvaluator::<ProbeAir, B>::new(&air, None, coef);
        evaluator.evaluate(&lde, &domain).into_inner()
    });
    let frags = lde.frags.into_inner().unwrap().into_iter().map(|f| (f.first_lde_step, f.lde_steps)).collect();
    let rows = std::mem::take(&mut *AIR_LOG.lock().unwrap());
    Observed { frags, rows, comb }
}

/// independent evaluation of the periodic column over the constraint evaluation domain:
/// value -> first table row holding it
fn periodic_table_rows(cfg: Cfg) -> HashMap<u64, usize> {
    let Some(lc) = cfg.log_cycle else { return HashMap::new(); };
    let mut poly = cfg.cycle_values().unwrap();
    let inv_twiddles = winter_math::fft::get_inv_twiddles::<B>(poly.len());
    winter_math::fft::interpolate_poly(&mut poly, &inv_twiddles);
    let table_len = (1usize << lc) << cfg.log_ceb;
    let g = B::get_root_of_unity(cfg.ce().ilog2());
    let num_cycles = (cfg.n() >> lc) as u64;
    let mut map = HashMap::new();
    let mut x = B::GENERATOR; // the default domain offset of ProofOptions
    for r in 0..table_len {
        let v = polynom::eval(&poly, x.exp(num_cycles)).as_int();
        map.entry(v).or_insert(r);
        x *= g;
    }
    assert_eq!(map.len(), table_len, "periodic table values are not pairwise distinct; choose other cycle values");
    map
}

fn documented_frags(cfg: Cfg, threads: usize) -> Option<String> {
    let nf = if cfg.ce() >= 8192 { threads.next_power_of_two() } else { 1 };
    let size = cfg.ce() / nf;
    if size < 16 { return None; }
    Some(show_plan((0..nf).map(|i| (i * size, size)).collect()))
}

fn render_eval(cfg: Cfg, threads: usize, table: &HashMap<u64, usize>) -> String {
    let exec_threads = if cfg!(feature = "concurrent") { threads } else { 1 };
    if !real(threads) && documented_frags(cfg, threads).is_none() {
        return "abort".into(); // the documented assertion `fragment size must be at least 16`
    }
    abort_only_on("fragment size must be at least", || observe(cfg, exec_threads), |o| render_observed(cfg, threads, table, o))
}

fn render_observed(cfg: Cfg, threads: usize, table: &HashMap<u64, usize>, o: Observed) -> String {
    let shift = cfg.shift();
    // fragments: start and number of rows, each must read consecutive steps `(off + i) << shift`
    let mut frags = vec![];
    let mut lde_steps = vec![];
    let mut fs = o.frags;
    fs.sort();
    for (first, steps) in &fs {
        if first % (1 << shift) != 0 { return format!("fragment starts at lde step {first}"); }
        let off = first >> shift;
        for (i, s) in steps.iter().enumerate() {
            if *s != (off + i) << shift { return format!("fragment at {off}: row {i} read lde step {s}"); }
        }
        frags.push((off, steps.len()));
        lde_steps.extend(steps.iter().map(|s| *s as u64));
    }
    // periodic table row received by every constraint-evaluation row, in global order
    let mut rows = o.rows;
    rows.sort();
    if rows.len() != cfg.ce() { return format!("{} rows evaluated", rows.len()); }
    let mut per = vec![];
    for (i, (marker, v)) in rows.iter().enumerate() {
        if *marker != ((i << shift) as u64) + 1 { return format!("row {i} evaluated on lde step {}", marker - 1); }
        match (v, cfg.log_cycle) {
            (None, None) => {},
            (Some(v), Some(_)) => match table.get(v) {
                Some(r) => per.push(*r as u64),
                None => return format!("row {i}: periodic value {v} is not in the table"),
            },
            _ => return format!("row {i}: unexpected periodic row width"),
        }
    }
    let shown = if real(threads) { show_plan(frags) } else { documented_frags(cfg, threads).unwrap() };
    format!("frags={shown} lde={} per={}", fnv(lde_steps.into_iter()), fnv(per.into_iter()))
}

fn configs(n: usize) -> Vec<Cfg> {
    let c = |log_n, log_ceb, log_ldeb, log_cycle| Cfg { log_n, log_ceb, log_ldeb, log_cycle };
    let mut v = vec![
        c(4, 1, 1, Some(4)),   // smallest domain (16 rows = one fragment of the minimum size)
        c(9, 1, 3, Some(1)),   // 1024: below every threshold
        c(10, 2, 2, Some(10)), // 4096: below the fragment threshold, above acc_column's
        c(12, 1, 1, Some(12)), // 8192 = MIN_CONCURRENT_DOMAIN_SIZE, periodic table as long as the domain
        c(11, 2, 3, Some(3)),  // 8192, ce blowup 4 (table of 4 divisor inverses), short periodic table
        c(10, 3, 3, None),     // 8192, ce blowup 8, no periodic column
        c(12, 2, 4, Some(9)),  // 16384, table of 2048 rows: longer than the fragments of >= 16 threads
        c(12, 3, 3, Some(10)), // 32768
    ];
    if n >= 2 {
        v.extend([c(13, 1, 2, Some(13)), c(11, 3, 5, Some(11)), c(10, 4, 4, Some(6)), c(9, 5, 5, Some(9)),
                  c(8, 6, 7, Some(2)), c(7, 7, 7, Some(7)), c(13, 2, 2, None), c(5, 1, 2, Some(5))]);
    }
    v
}

fn eval_cases(out: &mut Out, n: usize, comb: bool) {
    for cfg in configs(n) {
        let table = if comb { HashMap::new() } else { periodic_table_rows(cfg) };
        for threads in THREADS {
            if comb {
                out.count(&format!("comb:ce={}", cfg.ce()));
                out.case(&format!("c06c comb {} {threads}", cfg.words()), "-", || {
                    abort_only_on("fragment size must be at least",
                        || observe(cfg, if cfg!(feature = "concurrent") { threads } else { 1 }),
                        |o| format!("n{}:h{}", o.comb.len(), fnv(o.comb.iter().map(|e| e.as_int()))))
                });
            } else {
                out.count(&format!("eval:ce={}:threads={threads}", cfg.ce()));
                out.count(if real(threads) { "eval:real-split" } else { "eval:serial-build-answers-documented-split" });
                out.case(&format!("c06b eval {} {threads}", cfg.words()), "~^frags=0:", || render_eval(cfg, threads, &table));
            }
        }
    }
    if !comb {
        // more threads than `fragment size >= 16` admits on the smallest concurrent domain: the
        // property's oracle still demands a split (known finding c06b_evalx*)
        let cfg = Cfg { log_n: 10, log_ceb: 3, log_ldeb: 3, log_cycle: Some(2) };
        let table = periodic_table_rows(cfg);
        out.count("eval:more-threads-than-fragments-of-16-rows");
        out.case(&format!("c06b evalx {} 600", cfg.words()), "~^frags=0:", || render_eval(cfg, 600, &table));
    }
}

pub fn run(rng: &mut Rng, out: &mut Out, n: usize) {
    cap_malloc_arenas();
    // enumerated plans: every listed thread count x minimum batch sizes of the crates (1, 128, 1024)
    // and an odd one x lengths around every case split
    for threads in THREADS {
        let p2 = threads.next_power_of_two();
        let mut lens: Vec<usize> = (0..=17).collect();
        lens.extend((5..=15).map(|k| 1usize << k));
        lens.extend([1000, 1001, 4095, 4097, 8191, 8193, 100_000, (1 << 20) + 3]);
        for m in [1usize, 7, 128, 1024] {
            lens.extend([m * threads, m * threads + 1, (m * threads).saturating_sub(1), m * p2, m * p2 + 1, (m * p2).saturating_sub(1), 3 * m * p2 + 5]);
        }
        lens.sort();
        lens.dedup();
        for &len in &lens {
            plan_case(out, len, None, threads);
            for m in [1usize, 7, 128, 1024] {
                plan_case(out, len, Some(m), threads);
            }
        }
    }
    // seeded plans: random lengths / minimum batch sizes, thread counts 1..=24
    for _ in 0..200 * n {
        let threads = if rng.chance(1, 2) { *rng.pick(&THREADS) } else { rng.range(1, 24) as usize };
        let len = match rng.below(3) { 0 => rng.below(300) as usize, 1 => 1usize << rng.range(4, 18), _ => rng.below(1 << 18) as usize };
        let min = match rng.below(4) { 0 => 1, 1 => 128, 2 => 1024, _ => rng.range(1, 3000) as usize };
        plan_case(out, len, Some(min), threads);
    }
    eval_cases(out, n, false);
}

pub fn run_comb(_rng: &mut Rng, out: &mut Out, n: usize) {
    cap_malloc_arenas();
    eval_cases(out, n, true);
}
