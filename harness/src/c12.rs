//! C12: FFT evaluation / interpolation / degree inference (`winter_math::fft`).
//! Implementation: the real `fft::*` functions over f64, f62, f128 and QuadExtension / CubeExtension
//! of f64 (coefficients in the extension, twiddles and offsets in the base field).
//! Oracle (independent of the FFT code): naive O(n^2) Horner evaluation at offset * w^i with
//! w = get_root_of_unity(log2 n) in canonical modular arithmetic (c10's addmod/mulmod), the naive
//! inverse DFT for interpolation, "interpolate(evaluate(p)) = p" and Horner spot checks for the
//! large sizes, the true degree for infer_degree, string-level bit reversal for permutations.
//! Large vectors are sent as a seed of the LCG below (identical in lean/Wf/Drv/Fft.lean) and
//! answered as `n<len>:h<fnv digest>:<first>:<last>`.
//! Thread independence (not part of ./check): build this stream with `--features concurrent
//! --target-dir /verif/.cache/target-concurrent`, run `RAYON_NUM_THREADS=t wfh c12 <seed> <n> <dir>` for
//! t in {1,2,16} and `cmp` the .qa files with the serial build's (same seed => same requests; sizes
//! >= 1024 take the split-radix path of concurrent.rs).
use winter_math::{
    fft::{self, fft_inputs::FftInputs},
    fields::{f128, f62, f64, CubeExtension, QuadExtension},
    FieldElement, StarkField,
};

use crate::c10::{mulmod, o_add, o_inv, o_mul, show, spec, Fld, Spec};
use crate::out::Out;
use crate::rng::Rng;

type El = Vec<u128>;

// ---------------------------------------------------------------------------------------------
// shared with the Lean driver: LCG expansion and FNV digest
// ---------------------------------------------------------------------------------------------
fn lcg_next(s: u64) -> u64 { s.wrapping_mul(6364136223846793005).wrapping_add(1442695040888963407) }
fn lcg_coord(p: u128, s: &mut u64) -> u128 {
    *s = lcg_next(*s);
    let hi = *s as u128;
    *s = lcg_next(*s);
    ((hi << 64) | *s as u128) % p
}

#[derive(Clone)]
enum VSpec {
    List(Vec<El>),
    Seed { seed: u64, len: usize, m: usize },
}
impl VSpec {
    fn expand(&self, s: &Spec) -> Vec<El> {
        match self {
            VSpec::List(v) => v.clone(),
            VSpec::Seed { seed, len, m } => {
                let mut st = *seed;
                let mut out = Vec::with_capacity(*len);
                for i in 0..*len {
                    if i < *m {
                        let mut e: El = (0..s.deg).map(|_| lcg_coord(s.p, &mut st)).collect();
                        if i + 1 == *m && e.iter().all(|&x| x == 0) { e[0] = 1; }
                        out.push(e);
                    } else {
                        out.push(vec![0; s.deg]);
                    }
                }
                out
            },
        }
    }
    fn render(&self) -> String {
        match self {
            VSpec::List(v) if v.is_empty() => "l:-".to_string(),
            VSpec::List(v) => format!("l:{}", v.iter().map(|e| show(e)).collect::<Vec<_>>().join(";")),
            VSpec::Seed { seed, len, m } => format!("s:{seed}:{len}:{m}"),
        }
    }
}

fn show_vec(es: &[El]) -> String {
    if es.len() <= 8 {
        if es.is_empty() { return "empty".to_string(); }
        return es.iter().map(|e| show(e)).collect::<Vec<_>>().join(";");
    }
    let mut h: u64 = 0xcbf29ce484222325;
    for e in es {
        for &c in e {
            h = (h ^ (c as u64)).wrapping_mul(0x100000001b3);
            h = (h ^ ((c >> 64) as u64)).wrapping_mul(0x100000001b3);
        }
    }
    format!("n{}:h{}:{}:{}", es.len(), h, show(&es[0]), show(&es[es.len() - 1]))
}

// ---------------------------------------------------------------------------------------------
// oracle
// ---------------------------------------------------------------------------------------------
fn embed(s: &Spec, x: u128) -> El { let mut v = vec![0; s.deg]; v[0] = x; v }
fn horner(s: &Spec, coeffs: &[El], x: u128) -> El {
    let xe = embed(s, x);
    let mut acc = vec![0u128; s.deg];
    for c in coeffs.iter().rev() { acc = o_add(s, &o_mul(s, &acc, &xe), c); }
    acc
}
fn powmod(b: u128, mut e: u128, p: u128) -> u128 {
    let (mut r, mut x) = (1u128 % p, b % p);
    while e > 0 { if e & 1 == 1 { r = mulmod(r, x, p); } x = mulmod(x, x, p); e >>= 1; }
    r
}
fn invmod(b: u128, p: u128) -> u128 { o_inv(&Spec { p, deg: 1, red: [0; 3] }, &vec![b])[0] }
/// [p(offset * w^i)] for i < m
fn naive_eval(s: &Spec, coeffs: &[El], w: u128, offset: u128, m: usize) -> Vec<El> {
    let mut x = offset % s.p;
    let mut out = Vec::with_capacity(m);
    for _ in 0..m { out.push(horner(s, coeffs, x)); x = mulmod(x, w, s.p); }
    out
}
/// c_j = n^-1 * offset^-j * sum_i e_i w^(-ij)
fn naive_interp(s: &Spec, evals: &[El], w: u128, offset: u128) -> Vec<El> {
    let n = evals.len();
    let (winv, sinv, ninv) = (invmod(w, s.p), invmod(offset, s.p), invmod(n as u128 % s.p, s.p));
    let (mut x, mut f) = (1u128, ninv);
    let mut out = Vec::with_capacity(n);
    for _ in 0..n {
        out.push(o_mul(s, &horner(s, evals, x), &embed(s, f)));
        x = mulmod(x, winv, s.p);
        f = mulmod(f, sinv, s.p);
    }
    out
}
/// reversal of the k low bits through the binary string
fn bitrev(k: u32, i: usize) -> usize {
    if k == 0 { return 0; }
    let s: String = format!("{:0width$b}", i, width = k as usize).chars().rev().collect();
    usize::from_str_radix(&s, 2).unwrap()
}

// ---------------------------------------------------------------------------------------------
// stream
// ---------------------------------------------------------------------------------------------
fn to_el<E: Fld>(v: &[El]) -> Vec<E> { v.iter().map(|c| E::from_canon(c)).collect() }
fn from_el<E: Fld>(v: &[E]) -> Vec<El> { v.iter().map(|e| e.to_canon()).collect() }

fn boundary_elem(rng: &mut Rng, s: &Spec) -> El {
    (0..s.deg).map(|_| match rng.below(6) { 0 => 0, 1 => 1, 2 => s.p - 1, 3 => (s.p - 1) / 2, 4 => 2, _ => rng.next128() % s.p }).collect()
}

fn run_field<B, E>(rng: &mut Rng, out: &mut Out, maxk: u32)
where
    B: StarkField + Fld + 'static,
    E: FieldElement<BaseField = B> + Fld + 'static,
{
    let (sb, se) = (spec(B::NAME), spec(E::NAME));
    let name = E::NAME;
    let is_base = B::NAME == E::NAME;
    let p = sb.p;
    let root = |k: u32| -> u128 { B::get_root_of_unity(k).to_canon()[0] };
    let gen = B::GENERATOR.to_canon()[0];
    let bcan = |x: u128| -> B { B::from_canon(&[x]) };
    let pick_offset = |rng: &mut Rng, which: u64| -> u128 {
        match which % 3 { 0 => 1, 1 => gen, _ => 1 + rng.next128() % (p - 1) }
    };
    const NAIVE_K: u32 = 9;

    for k in 1..=maxk {
        let n = 1usize << k;
        let w = root(k);
        // ---- twiddles (base field only)
        if is_base {
            for (op, inv) in [("tw", false), ("itw", true)] {
                let oracle = if k <= 10 {
                    let base = if inv { invmod(w, p) } else { w };
                    let t: Vec<El> = (0..n / 2).map(|i| vec![powmod(base, bitrev(k - 1, i) as u128, p)]).collect();
                    show_vec(&t)
                } else { "-".to_string() };
                out.count(&format!("{name}:{op}"));
                out.case(&format!("c12 {name} {op} {n}"), &oracle, || {
                    let t = if inv { fft::get_inv_twiddles::<B>(n) } else { fft::get_twiddles::<B>(n) };
                    show_vec(&from_el(&t))
                });
            }
        }
        // ---- polynomials of this size
        let mut specs: Vec<VSpec> = vec![
            VSpec::Seed { seed: rng.next(), len: n, m: n },
            VSpec::Seed { seed: rng.next(), len: n, m: rng.range(0, n as u64) as usize },
        ];
        if k <= 3 {
            for _ in 0..3 { specs.push(VSpec::List((0..n).map(|_| boundary_elem(rng, &se)).collect())); }
        }
        for (si, vs) in specs.iter().enumerate() {
            let coeffs = vs.expand(&se);
            // evaluate_poly
            let oracle = if k <= NAIVE_K { show_vec(&naive_eval(&se, &coeffs, w, 1, n)) } else { "-".to_string() };
            let c2 = coeffs.clone();
            out.count(&format!("{name}:eval"));
            out.case(&format!("c12 {name} eval {} {k}", vs.render()), &oracle, move || {
                let mut v: Vec<E> = to_el(&c2);
                let tw = fft::get_twiddles::<B>(v.len());
                fft::evaluate_poly(&mut v, &tw);
                show_vec(&from_el(&v))
            });
            // serial_fft (natural order) and the plain fft_in_place (bit-reversed order)
            if si == 0 {
                let oracle = if k <= NAIVE_K { show_vec(&naive_eval(&se, &coeffs, w, 1, n)) } else { "-".to_string() };
                let c2 = coeffs.clone();
                out.count(&format!("{name}:fft"));
                out.case(&format!("c12 {name} fft {} {k}", vs.render()), &oracle, move || {
                    let mut v: Vec<E> = to_el(&c2);
                    let tw = fft::get_twiddles::<B>(v.len());
                    fft::serial_fft(&mut v, &tw);
                    show_vec(&from_el(&v))
                });
                let oracle = if k <= NAIVE_K {
                    let e = naive_eval(&se, &coeffs, w, 1, n);
                    show_vec(&(0..n).map(|i| e[bitrev(k, i)].clone()).collect::<Vec<_>>())
                } else { "-".to_string() };
                let c2 = coeffs.clone();
                out.count(&format!("{name}:raw"));
                out.case(&format!("c12 {name} raw {} {k} 1 1 0", vs.render()), &oracle, move || {
                    let mut v: Vec<E> = to_el(&c2);
                    let tw = fft::get_twiddles::<B>(v.len());
                    v.as_mut_slice().fft_in_place(&tw);
                    show_vec(&from_el(&v))
                });
                // permute
                let oracle = show_vec(&(0..n).map(|i| coeffs[bitrev(k, i)].clone()).collect::<Vec<_>>());
                let c2 = coeffs.clone();
                out.count(&format!("{name}:perm"));
                out.case(&format!("c12 {name} perm {}", vs.render()), &oracle, move || {
                    let mut v: Vec<E> = to_el(&c2);
                    FftInputs::permute(v.as_mut_slice());
                    show_vec(&from_el(&v))
                });
            }
            // round trip: interpolate(evaluate(p)) = p
            let c2 = coeffs.clone();
            out.count(&format!("{name}:rt"));
            out.case(&format!("c12 {name} rt {} {k}", vs.render()), &show_vec(&coeffs), move || {
                let mut v: Vec<E> = to_el(&c2);
                let tw = fft::get_twiddles::<B>(v.len());
                let itw = fft::get_inv_twiddles::<B>(v.len());
                fft::evaluate_poly(&mut v, &tw);
                fft::interpolate_poly(&mut v, &itw);
                show_vec(&from_el(&v))
            });
            // spot checks where there is no full oracle: Horner at w^i
            for i in [n - 1, rng.below(n as u64) as usize] {
                if k <= NAIVE_K { continue; }
                let oracle = show(&horner(&se, &coeffs, powmod(w, i as u128, p)));
                let c2 = coeffs.clone();
                out.count(&format!("{name}:spot"));
                out.case(&format!("c12 {name} spot {} {k} {i}", vs.render()), &oracle, move || {
                    let mut v: Vec<E> = to_el(&c2);
                    let tw = fft::get_twiddles::<B>(v.len());
                    fft::evaluate_poly(&mut v, &tw);
                    show(&v[i].to_canon())
                });
            }
            // evaluate_poly_with_offset: blowups x offsets
            let all = k <= 6;
            for (bi, bl) in [1usize, 2, 4, 8, 16].into_iter().enumerate() {
                let lb = bl.trailing_zeros();
                if k + lb > maxk + 2 { continue; }
                if !all && !rng.chance(2, 5) { continue; }
                for oi in 0..3u64 {
                    if !all && oi != (si + bi) as u64 % 3 { continue; }
                    let s = pick_offset(rng, oi);
                    let m = n * bl;
                    let g = root(k + lb);
                    let oracle = if k + lb <= NAIVE_K { show_vec(&naive_eval(&se, &coeffs, g, s, m)) } else { "-".to_string() };
                    let c2 = coeffs.clone();
                    out.count(&format!("{name}:evaloff:b{bl}:o{oi}"));
                    out.case(&format!("c12 {name} evaloff {} {k} {s} {bl}", vs.render()), &oracle, move || {
                        let v: Vec<E> = to_el(&c2);
                        let tw = fft::get_twiddles::<B>(v.len());
                        let r = fft::evaluate_poly_with_offset(&v, &tw, bcan(s), bl);
                        show_vec(&from_el(&r))
                    });
                    // spot check on the big domain (where there is no full oracle)
                    let i = rng.below(m as u64) as usize;
                    if k + lb > NAIVE_K {
                    let x = mulmod(s, powmod(g, i as u128, p), p);
                    let oracle = show(&horner(&se, &coeffs, x));
                    let c2 = coeffs.clone();
                    out.count(&format!("{name}:spotoff"));
                    out.case(&format!("c12 {name} spotoff {} {k} {s} {bl} {i}", vs.render()), &oracle, move || {
                        let v: Vec<E> = to_el(&c2);
                        let tw = fft::get_twiddles::<B>(v.len());
                        let r = fft::evaluate_poly_with_offset(&v, &tw, bcan(s), bl);
                        show(&r[i].to_canon())
                    });
                    }
                    // round trip with offset (blowup 1 only)
                    if bl == 1 {
                        let c2 = coeffs.clone();
                        out.count(&format!("{name}:rtoff"));
                        out.case(&format!("c12 {name} rtoff {} {k} {s}", vs.render()), &show_vec(&coeffs), move || {
                            let v: Vec<E> = to_el(&c2);
                            let tw = fft::get_twiddles::<B>(v.len());
                            let itw = fft::get_inv_twiddles::<B>(v.len());
                            let mut r = fft::evaluate_poly_with_offset(&v, &tw, bcan(s), 1);
                            fft::interpolate_poly_with_offset(&mut r, &itw, bcan(s));
                            show_vec(&from_el(&r))
                        });
                    }
                }
            }
            // interpolation of an arbitrary evaluation vector
            if si == 0 {
                let oracle = if k <= NAIVE_K { show_vec(&naive_interp(&se, &coeffs, w, 1)) } else { "-".to_string() };
                let c2 = coeffs.clone();
                out.count(&format!("{name}:interp"));
                out.case(&format!("c12 {name} interp {} {k}", vs.render()), &oracle, move || {
                    let mut v: Vec<E> = to_el(&c2);
                    let itw = fft::get_inv_twiddles::<B>(v.len());
                    fft::interpolate_poly(&mut v, &itw);
                    show_vec(&from_el(&v))
                });
                for oi in 0..3u64 {
                    if !all && oi != k as u64 % 3 { continue; }
                    let s = pick_offset(rng, oi);
                    let oracle = if k <= NAIVE_K { show_vec(&naive_interp(&se, &coeffs, w, s)) } else { "-".to_string() };
                    let c2 = coeffs.clone();
                    out.count(&format!("{name}:interpoff:o{oi}"));
                    out.case(&format!("c12 {name} interpoff {} {k} {s}", vs.render()), &oracle, move || {
                        let mut v: Vec<E> = to_el(&c2);
                        let itw = fft::get_inv_twiddles::<B>(v.len());
                        fft::interpolate_poly_with_offset(&mut v, &itw, bcan(s));
                        show_vec(&from_el(&v))
                    });
                }
                // general call shapes of fft_in_place: (count, stride, offset)
                for _ in 0..3 {
                    let d = rng.below(k as u64) as u32; // stride 2^d, sub-size 2^(k-d) >= 2
                    let stride = 1usize << d;
                    let off = rng.below(stride as u64) as usize;
                    let cnt = 1 + rng.below((stride - off) as u64) as usize;
                    let oracle = if k <= NAIVE_K {
                        let mut exp = coeffs.clone();
                        let sub = n / stride;
                        let ws = powmod(w, stride as u128, p);
                        for q in off..off + cnt {
                            let seq: Vec<El> = (0..sub).map(|j| coeffs[q + j * stride].clone()).collect();
                            let e = naive_eval(&se, &seq, ws, 1, sub);
                            for mm in 0..sub { exp[q + mm * stride] = e[bitrev(k - d, mm)].clone(); }
                        }
                        show_vec(&exp)
                    } else { "-".to_string() };
                    let c2 = coeffs.clone();
                    out.count(&format!("{name}:raw"));
                    out.case(&format!("c12 {name} raw {} {k} {cnt} {stride} {off}", vs.render()), &oracle, move || {
                        let mut v: Vec<E> = to_el(&c2);
                        let tw = fft::get_twiddles::<B>(v.len());
                        v.as_mut_slice().fft_in_place_raw(&tw, cnt, stride, off);
                        show_vec(&from_el(&v))
                    });
                }
            }
        }
        // ---- infer_degree: every degree for small sizes, boundary degrees otherwise
        let ms: Vec<usize> = if k <= 5 { (0..=n).collect() } else {
            vec![0, 1, 2, n / 2, n / 2 + 1, n - 1, n, rng.range(1, n as u64) as usize]
        };
        for (j, &m) in ms.iter().enumerate() {
            let vs = VSpec::Seed { seed: rng.next(), len: n, m };
            let coeffs = vs.expand(&se);
            let bl = [1usize, 2, 4][j % 3];
            if k + bl.trailing_zeros() > maxk + 2 { continue; }
            let s = pick_offset(rng, (j / 3) as u64);
            let oracle = format!("{}", if m == 0 { 0 } else { m - 1 });
            out.count(&format!("{name}:deg:{}", if m == 0 { "zero" } else if m == n { "full" } else { "mid" }));
            out.case(&format!("c12 {name} deg {} {k} {s} {bl}", vs.render()), &oracle, move || {
                let v: Vec<E> = to_el(&coeffs);
                let tw = fft::get_twiddles::<B>(v.len());
                let ev = fft::evaluate_poly_with_offset(&v, &tw, bcan(s), bl);
                format!("{}", fft::infer_degree(&ev, bcan(s)))
            });
        }
        // all-zero evaluations, random evaluations
        let vz = VSpec::Seed { seed: 1, len: n, m: 0 };
        let zs = vz.expand(&se);
        out.count(&format!("{name}:degraw"));
        out.case(&format!("c12 {name} degraw {} {gen}", vz.render()), "0", move || {
            format!("{}", fft::infer_degree(&to_el::<E>(&zs), bcan(gen)))
        });
        let vr = VSpec::Seed { seed: rng.next(), len: n, m: n };
        let rs = vr.expand(&se);
        out.count(&format!("{name}:degraw"));
        out.case(&format!("c12 {name} degraw {} 1", vr.render()), "-", move || {
            format!("{}", fft::infer_degree(&to_el::<E>(&rs), bcan(1)))
        });
    }

    // ---- documented panics (and one undocumented: domain size 1)
    let three = VSpec::List((0..3).map(|_| boundary_elem(rng, &se)).collect());
    let four = VSpec::Seed { seed: rng.next(), len: 4, m: 4 };
    let one = VSpec::List(vec![boundary_elem(rng, &se)]);
    let empty = VSpec::List(vec![]);
    let abort_case = |out: &mut Out, req: String, oracle: &str, f: Box<dyn FnOnce() -> String>| {
        out.count(&format!("{name}:panic"));
        out.case(&req, oracle, f);
    };
    for (vs, ktw, orc) in [(&three, 2u32, "abort"), (&empty, 1, "abort"), (&four, 3, "abort"), (&four, 1, "abort"), (&one, 0, "-")] {
        let c = vs.expand(&se);
        let c2 = c.clone();
        abort_case(out, format!("c12 {name} eval {} {ktw}", vs.render()), orc, Box::new(move || {
            let mut v: Vec<E> = to_el(&c2);
            let tw = fft::get_twiddles::<B>(1 << ktw);
            fft::evaluate_poly(&mut v, &tw);
            show_vec(&from_el(&v))
        }));
        let c2 = c.clone();
        abort_case(out, format!("c12 {name} interp {} {ktw}", vs.render()), orc, Box::new(move || {
            let mut v: Vec<E> = to_el(&c2);
            let tw = fft::get_inv_twiddles::<B>(1 << ktw);
            fft::interpolate_poly(&mut v, &tw);
            show_vec(&from_el(&v))
        }));
        let c2 = c.clone();
        abort_case(out, format!("c12 {name} fft {} {ktw}", vs.render()), orc, Box::new(move || {
            let mut v: Vec<E> = to_el(&c2);
            let tw = fft::get_twiddles::<B>(1 << ktw);
            fft::serial_fft(&mut v, &tw);
            show_vec(&from_el(&v))
        }));
    }
    let c = four.expand(&se);
    for (s, bl) in [(0u128, 2usize), (1, 3), (gen, 0), (0, 1)] {
        let c2 = c.clone();
        abort_case(out, format!("c12 {name} evaloff {} 2 {s} {bl}", four.render()), "abort", Box::new(move || {
            let v: Vec<E> = to_el(&c2);
            let tw = fft::get_twiddles::<B>(4);
            show_vec(&from_el(&fft::evaluate_poly_with_offset(&v, &tw, bcan(s), bl)))
        }));
    }
    let c2 = c.clone();
    abort_case(out, format!("c12 {name} interpoff {} 2 0", four.render()), "abort", Box::new(move || {
        let mut v: Vec<E> = to_el(&c2);
        let tw = fft::get_inv_twiddles::<B>(4);
        fft::interpolate_poly_with_offset(&mut v, &tw, bcan(0));
        show_vec(&from_el(&v))
    }));
    let c2 = c.clone();
    abort_case(out, format!("c12 {name} degraw {} 0", four.render()), "abort", Box::new(move || {
        format!("{}", fft::infer_degree(&to_el::<E>(&c2), bcan(0)))
    }));
    let c3 = three.expand(&se);
    abort_case(out, format!("c12 {name} degraw {} 1", three.render()), "abort", Box::new(move || {
        format!("{}", fft::infer_degree(&to_el::<E>(&c3), bcan(1)))
    }));
    let c1 = one.expand(&se);
    abort_case(out, format!("c12 {name} degraw {} 1", one.render()), "-", Box::new(move || {
        format!("{}", fft::infer_degree(&to_el::<E>(&c1), bcan(1)))
    }));
    if is_base {
        for (nn, orc) in [(0usize, "abort"), (3, "abort"), (6, "abort"), (1, "-")] {
            for (op, inv) in [("tw", false), ("itw", true)] {
                abort_case(out, format!("c12 {name} {op} {nn}"), orc, Box::new(move || {
                    let t = if inv { fft::get_inv_twiddles::<B>(nn) } else { fft::get_twiddles::<B>(nn) };
                    show_vec(&from_el(&t))
                }));
            }
        }
    }
}

/// `n` = log2 of the largest polynomial size (11 quick, 14 thorough)
pub fn run(rng: &mut Rng, out: &mut Out, n: usize) {
    let maxk = n.clamp(3, 20) as u32;
    for k in 0..=maxk {
        let size = 1usize << k;
        let oracle = show_vec(&(0..size).map(|i| vec![bitrev(k, i) as u128]).collect::<Vec<_>>());
        out.count("pidx");
        out.case(&format!("c12 nat pidx {k}"), &oracle, || {
            show_vec(&(0..size).map(|i| vec![fft::permute_index(size, i) as u128]).collect::<Vec<_>>())
        });
    }
    run_field::<f64::BaseElement, f64::BaseElement>(rng, out, maxk);
    run_field::<f62::BaseElement, f62::BaseElement>(rng, out, maxk);
    run_field::<f128::BaseElement, f128::BaseElement>(rng, out, maxk);
    run_field::<f64::BaseElement, QuadExtension<f64::BaseElement>>(rng, out, maxk);
    run_field::<f64::BaseElement, CubeExtension<f64::BaseElement>>(rng, out, maxk.min(9));
}
