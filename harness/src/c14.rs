//! C14: batch field utilities agree with element-wise definitions; slice grouping / flattening /
//! transposition preserve element order; `batch_iter_mut!` chunking.
//! Implementation side: the real `winter_math` / `winter_utils` functions.
//! Oracle side: element-wise inverse (0 -> 0) by Fermat exponentiation in the independent modular
//! arithmetic of `c10.rs`, naive powers, element-wise sums, plain re-chunking.
//! Request syntax: see lean/Wf/Drv/BatchUtils.lean.
use std::collections::HashMap;
use std::sync::Mutex;

use winter_math::{
    add_in_place, batch_inversion,
    fields::{f128, f62, f64, CubeExtension, QuadExtension},
    get_power_series, get_power_series_with_offset, mul_acc,
};
#[cfg(feature = "concurrent")]
#[allow(unused_imports)]
use winter_utils::iterators::*;
use winter_utils::{
    batch_iter_mut, flatten_slice_elements, flatten_vector_elements, group_slice_elements, transpose_slice,
};

use crate::c10::{addmod, mulmod, o_add, o_inv, o_mul, o_one, show, spec, Fld, Spec};
use crate::out::Out;
use crate::rng::Rng;

pub type E = Vec<u128>;

/// number of rayon threads of this build (the serial build behaves like one thread)
#[cfg(feature = "concurrent")]
pub fn threads() -> usize { rayon_num_threads() }
#[cfg(not(feature = "concurrent"))]
pub fn threads() -> usize { 1 }

/// answers and oracles use `empty` for the empty list (`-` would mean "no oracle" to the check driver)
pub fn ans(s: &str) -> String { if s == "-" { "empty".to_string() } else { s.to_string() } }
pub fn case(out: &mut Out, req: &str, oracle: &str, f: impl FnOnce() -> String) {
    out.case(req, &ans(oracle), || ans(&f()));
}

pub fn show_list(es: &[E]) -> String {
    if es.is_empty() { "-".to_string() } else { es.iter().map(|e| show(e)).collect::<Vec<_>>().join(";") }
}

/// a pool of boundary-biased non-zero elements of one field with their (oracle) inverses
pub struct Pool {
    pub s: Spec,
    pub elems: Vec<E>,
    pub inv: HashMap<E, E>,
}

pub fn gen_coord(rng: &mut Rng, p: u128) -> u128 {
    let v = match rng.below(10) {
        0 => rng.below(3) as u128,
        1 => p - 1 - rng.below(3) as u128,
        2 => (p - 1) / 2 + rng.below(3) as u128,
        3 => (1u128 << 32) - 1 + rng.below(3) as u128,
        4 => (1u128 << 63) - 2 + rng.below(4) as u128,
        5 => { let k = rng.below(127) as u32; (1u128 << k).wrapping_add(rng.below(3) as u128).wrapping_sub(1) },
        _ => rng.next128(),
    };
    v % p
}

impl Pool {
    pub fn new(rng: &mut Rng, name: &str, size: usize) -> Pool {
        let s = spec(name);
        let mut elems: Vec<E> = vec![];
        // 1, p-1, 2, and elements with a single non-zero coordinate first
        let mut one = vec![0u128; s.deg]; one[0] = 1; elems.push(one);
        let mut m1 = vec![0u128; s.deg]; m1[0] = s.p - 1; elems.push(m1);
        for k in 0..s.deg { let mut e = vec![0u128; s.deg]; e[k] = 2 + k as u128; elems.push(e); }
        while elems.len() < size {
            let e: E = (0..s.deg).map(|_| gen_coord(rng, s.p)).collect();
            if e.iter().any(|&x| x != 0) { elems.push(e); }
        }
        let mut inv = HashMap::new();
        for e in &elems { inv.insert(e.clone(), o_inv(&s, e)); }
        inv.insert(vec![0u128; s.deg], vec![0u128; s.deg]);
        Pool { s, elems, inv }
    }
    pub fn zero(&self) -> E { vec![0u128; self.s.deg] }
    pub fn nonzero(&self, rng: &mut Rng) -> E { rng.pick(&self.elems).clone() }
    /// any element, zero with probability 1/8
    pub fn any(&self, rng: &mut Rng) -> E { if rng.chance(1, 8) { self.zero() } else { self.nonzero(rng) } }
    /// element-wise inverse with 0 -> 0
    pub fn inv0(&self, e: &E) -> E {
        match self.inv.get(e) { Some(r) => r.clone(), None => o_inv(&self.s, e) }
    }
}

fn base_of<F: Fld>(x: u128) -> F::BaseField {
    match F::BaseField::try_from(x) { Ok(v) => v, Err(_) => panic!("non-canonical base value") }
}

fn to_elems<F: Fld>(es: &[E]) -> Vec<F> { es.iter().map(|e| F::from_canon(e)).collect() }
fn from_elems<F: Fld>(xs: &[F]) -> String { show_list(&xs.iter().map(|x| x.to_canon()).collect::<Vec<_>>()) }

fn o_powers(s: &Spec, b: &E, start: &E, n: usize) -> Vec<E> {
    let mut r = Vec::with_capacity(n);
    let mut cur = start.clone();
    for _ in 0..n { r.push(cur.clone()); cur = o_mul(s, &cur, b); }
    r
}

fn run_field<F: Fld>(rng: &mut Rng, out: &mut Out, n: usize, large: &[usize]) {
    let name = F::NAME;
    let pool = Pool::new(rng, name, 40);
    let s = pool.s;
    let t = threads();

    // ---- batch_inversion ------------------------------------------------------------------
    let mut inputs: Vec<(Vec<E>, &str)> = vec![];
    for len in 0..=40usize {
        inputs.push(((0..len).map(|_| pool.nonzero(rng)).collect(), "nozero"));
        inputs.push(((0..len).map(|_| pool.zero()).collect(), "allzero"));
        for _ in 0..n { inputs.push(((0..len).map(|_| if rng.chance(1, 3) { pool.zero() } else { pool.nonzero(rng) }).collect(), "somezero")); }
        if len <= 12 || len == 40 {
            // exactly one zero, at every position; and everything zero except one position
            for k in 0..len {
                let mut v: Vec<E> = (0..len).map(|_| pool.nonzero(rng)).collect();
                v[k] = pool.zero();
                inputs.push((v, "zero-at-k"));
                let mut v: Vec<E> = (0..len).map(|_| pool.zero()).collect();
                v[k] = pool.nonzero(rng);
                inputs.push((v, "nonzero-at-k"));
            }
        }
    }
    for &len in large {
        inputs.push(((0..len).map(|_| pool.nonzero(rng)).collect(), "large-nozero"));
        // zeros at the ends of the slice and at the 1024-element batch boundaries
        let mut v: Vec<E> = (0..len).map(|_| pool.any(rng)).collect();
        for k in [0usize, 1, 1023, 1024, 1025, 2047, 2048, len / 2, len.wrapping_sub(2), len.wrapping_sub(1)] {
            if k < len && rng.chance(2, 3) { v[k] = pool.zero(); }
        }
        inputs.push((v, "large-zeros"));
    }
    for (vals, class) in inputs {
        let exp: Vec<E> = vals.iter().map(|e| pool.inv0(e)).collect();
        out.count(&format!("{name}:binv:{class}"));
        case(out, &format!("c14 {name} binv {t} {}", show_list(&vals)), &show_list(&exp), || {
            from_elems(&batch_inversion(&to_elems::<F>(&vals)))
        });
    }

    // ---- get_power_series / get_power_series_with_offset ---------------------------------------
    let mut lens: Vec<usize> = (0..=40).collect();
    lens.extend(large.iter().filter(|&&l| l <= 4097));
    for &len in &lens {
        let reps = if len <= 3 { 4 } else { 1 };
        for rep in 0..reps {
            let b = match (len + rep) % 5 { 0 => pool.zero(), 1 => pool.elems[0].clone(), 2 => pool.elems[1].clone(), _ => pool.nonzero(rng) };
            let sft = if rep == 3 { pool.zero() } else { pool.any(rng) };
            out.count(&format!("{name}:pow:{}", if len == 0 { "n=0" } else if len <= 40 { "n<=40" } else { "large" }));
            // documented result: the vector [1, b, .., b^(n-1)] of n values (empty for n = 0)
            let exp = o_powers(&s, &b, &o_one(&s), len);
            let b2 = b.clone();
            case(out, &format!("c14 {name} pow {t} {} {len}", show(&b)), &show_list(&exp), move || {
                from_elems(&get_power_series(F::from_canon(&b2), len))
            });
            let exp = o_powers(&s, &b, &sft, len);
            let (b2, s2) = (b.clone(), sft.clone());
            case(out, &format!("c14 {name} powoff {t} {} {} {len}", show(&b), show(&sft)), &show_list(&exp), move || {
                from_elems(&get_power_series_with_offset(F::from_canon(&b2), F::from_canon(&s2), len))
            });
        }
    }

    // ---- add_in_place / mul_acc -------------------------------------------------------------------
    let mut lens: Vec<(usize, usize)> = (0..=40).map(|l| (l, l)).collect();
    lens.extend([(1025, 1025), (2048, 2048)]);
    // documented panic: different lengths
    lens.extend([(0, 1), (1, 0), (3, 4), (4, 3), (40, 39), (1024, 1025)]);
    for (la, lb) in lens {
        let a: Vec<E> = (0..la).map(|_| pool.any(rng)).collect();
        let b: Vec<E> = (0..lb).map(|_| pool.any(rng)).collect();
        let exp = if la == lb { show_list(&a.iter().zip(&b).map(|(x, y)| o_add(&s, x, y)).collect::<Vec<_>>()) } else { "abort".to_string() };
        out.count(&format!("{name}:addip:{}", if la == lb { "same-len" } else { "len-mismatch" }));
        case(out, &format!("c14 {name} addip {} {}", show_list(&a), show_list(&b)), &exp, || {
            let mut x = to_elems::<F>(&a);
            add_in_place(&mut x, &to_elems::<F>(&b));
            from_elems(&x)
        });
        // mul_acc: b are base-field elements, c an element of the (extension) field
        let bb: Vec<u128> = (0..lb).map(|_| if rng.chance(1, 8) { 0 } else { gen_coord(rng, s.p) }).collect();
        let c = pool.any(rng);
        let exp = if la == lb {
            show_list(&a.iter().zip(&bb).map(|(x, &y)| {
                let cy: E = c.iter().map(|&ci| mulmod(ci, y, s.p)).collect();
                (0..s.deg).map(|i| addmod(x[i], cy[i], s.p)).collect::<E>()
            }).collect::<Vec<_>>())
        } else { "abort".to_string() };
        let bs = show_list(&bb.iter().map(|&y| vec![y]).collect::<Vec<_>>());
        out.count(&format!("{name}:mulacc:{}", if la == lb { "same-len" } else { "len-mismatch" }));
        case(out, &format!("c14 {name} mulacc {} {bs} {}", show_list(&a), show(&c)), &exp, || {
            let mut x = to_elems::<F>(&a);
            let y: Vec<F::BaseField> = bb.iter().map(|&v| base_of::<F>(v)).collect();
            mul_acc::<F::BaseField, F>(&mut x, &y, F::from_canon(&c));
            from_elems(&x)
        });
    }
}

// ---------------------------------------------------------------------------------------------
// grouping / flattening / transposition (any element type; u32 here)
// ---------------------------------------------------------------------------------------------
fn show_u32s(xs: &[u32]) -> String {
    if xs.is_empty() { "-".to_string() } else { xs.iter().map(|x| x.to_string()).collect::<Vec<_>>().join(",") }
}
fn show_arrays(xs: &[Vec<u32>]) -> String {
    if xs.is_empty() { "-".to_string() } else { xs.iter().map(|a| show_u32s(a)).collect::<Vec<_>>().join(";") }
}

fn run_arrays<const N: usize>(rng: &mut Rng, out: &mut Out, reps: usize) {
    let mut lens: Vec<usize> = (0..=(3 * N + 2).max(12)).collect();
    lens.extend([N * 100, N * 100 + 1, N * 1025]);
    for len in lens {
        for _ in 0..reps {
            let src: Vec<u32> = (0..len).map(|_| rng.below(1000) as u32).collect();
            let ok = len % N == 0;
            let class = if ok { "divisible" } else { "not-divisible" };
            // group: consecutive chunks
            let exp = if ok { show_arrays(&src.chunks(N).map(|c| c.to_vec()).collect::<Vec<_>>()) } else { "abort".to_string() };
            out.count(&format!("nat:group:N={N}:{class}"));
            case(out, &format!("c14 nat group {N} {}", show_u32s(&src)), &exp, || {
                let g: &[[u32; N]] = group_slice_elements(&src);
                show_arrays(&g.iter().map(|a| a.to_vec()).collect::<Vec<_>>())
            });
            // transpose: the source read as N consecutive columns of `rows` elements
            let exp = if ok {
                let rows = len / N;
                let cols: Vec<&[u32]> = if rows == 0 { vec![] } else { src.chunks(rows).collect() };
                show_arrays(&(0..rows).map(|i| cols.iter().map(|c| c[i]).collect::<Vec<u32>>()).collect::<Vec<_>>())
            } else { "abort".to_string() };
            out.count(&format!("nat:transpose:N={N}:{class}"));
            case(out, &format!("c14 nat transpose {N} {}", show_u32s(&src)), &exp, || {
                let g: Vec<[u32; N]> = transpose_slice(&src);
                show_arrays(&g.iter().map(|a| a.to_vec()).collect::<Vec<_>>())
            });
            // flatten (slice and vector versions must agree): rows in order
            if ok {
                let arrays: Vec<[u32; N]> = src.chunks(N).map(|c| { let mut a = [0u32; N]; a.copy_from_slice(c); a }).collect();
                let req = format!("c14 nat flat {N} {}", show_arrays(&arrays.iter().map(|a| a.to_vec()).collect::<Vec<_>>()));
                out.count(&format!("nat:flat:N={N}"));
                case(out, &req, &show_u32s(&src), || {
                    let f1 = flatten_slice_elements(&arrays).to_vec();
                    let f2 = flatten_vector_elements(arrays.clone());
                    if f1 == f2 { show_u32s(&f1) } else { format!("slice/vector differ: {} / {}", show_u32s(&f1), show_u32s(&f2)) }
                });
            }
        }
    }
}

// ---------------------------------------------------------------------------------------------
// batch_iter_mut! chunking: record (offset, length) of every batch
// ---------------------------------------------------------------------------------------------
fn show_plan(mut cs: Vec<(usize, usize)>) -> String {
    cs.sort();
    cs.iter().map(|(o, l)| format!("{o}:{l}")).collect::<Vec<_>>().join(";")
}

fn expected_plan(len: usize, threads: usize, min: usize) -> String {
    // the documented behaviour: the serial build processes the whole slice as one batch; the
    // concurrent build splits it into len / next_pow2(threads)-sized consecutive batches
    let bs = len / threads.next_power_of_two();
    if !cfg!(feature = "concurrent") || bs < min { return format!("0:{len}"); }
    let mut v = vec![];
    let mut off = 0;
    while off < len { v.push((off, bs.min(len - off))); off += bs; }
    show_plan(v)
}

fn run_plan(out: &mut Out, large: &[usize]) {
    let t = threads();
    let mut lens: Vec<usize> = (0..=40).collect();
    lens.extend_from_slice(large);
    lens.extend([1024 * t - 1, 1024 * t, 1024 * t + 1, 1024 * t.next_power_of_two() + 7, 3 * 1024 * t + 5]);
    for len in lens {
        for min in [1usize, 7, 1024] {
            out.count(&format!("plan:min={min}"));
            case(out, &format!("c14 plan {len} {t} {min}"), &expected_plan(len, t, min), || {
                let mut data = vec![0u32; len];
                let seen: Mutex<Vec<(usize, usize)>> = Mutex::new(vec![]);
                if min == 1 {
                    batch_iter_mut!(&mut data, |batch: &mut [u32], off: usize| {
                        seen.lock().unwrap().push((off, batch.len()));
                        for x in batch.iter_mut() { *x += 1; }
                    });
                } else if min == 7 {
                    batch_iter_mut!(&mut data, 7, |batch: &mut [u32], off: usize| {
                        seen.lock().unwrap().push((off, batch.len()));
                        for x in batch.iter_mut() { *x += 1; }
                    });
                } else {
                    batch_iter_mut!(&mut data, 1024, |batch: &mut [u32], off: usize| {
                        seen.lock().unwrap().push((off, batch.len()));
                        for x in batch.iter_mut() { *x += 1; }
                    });
                }
                // every element visited exactly once
                if data.iter().any(|&x| x != 1) { return "some element not visited exactly once".to_string(); }
                show_plan(seen.into_inner().unwrap())
            });
        }
    }
}

pub fn run(rng: &mut Rng, out: &mut Out, n: usize) {
    let large_all: Vec<usize> = [1usize, 2, 3, 4, 8, 16].iter().flat_map(|k| [1024 * k - 1, 1024 * k, 1024 * k + 1]).collect();
    let large_some: Vec<usize> = [1usize, 2, 4].iter().flat_map(|k| [1024 * k - 1, 1024 * k, 1024 * k + 1]).collect();
    let large_few: Vec<usize> = vec![1023, 1024, 1025, 2049];
    run_field::<f64::BaseElement>(rng, out, n, &large_all);
    run_field::<f62::BaseElement>(rng, out, n, &large_some);
    run_field::<f128::BaseElement>(rng, out, n, &large_some);
    run_field::<QuadExtension<f64::BaseElement>>(rng, out, n, &large_some);
    run_field::<QuadExtension<f62::BaseElement>>(rng, out, n, &large_few);
    run_field::<QuadExtension<f128::BaseElement>>(rng, out, n, &large_few);
    run_field::<CubeExtension<f64::BaseElement>>(rng, out, n, &large_few);
    run_field::<CubeExtension<f62::BaseElement>>(rng, out, n, &large_few);
    run_arrays::<1>(rng, out, n);
    run_arrays::<2>(rng, out, n);
    run_arrays::<3>(rng, out, n);
    run_arrays::<4>(rng, out, n);
    run_arrays::<8>(rng, out, n);
    run_arrays::<16>(rng, out, n);
    run_plan(out, &large_all);
}
