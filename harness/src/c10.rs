//! C10: field and extension-field arithmetic is exact modular arithmetic.
//! The implementation answers at value level (canonical integers in, canonical integers out) for all
//! three fields and their extensions, and at representation level: raw Montgomery words for f64, and
//! for all fields operands built by operation chains (both words of zero in f62, -ZERO, x - x, ...)
//! whose results are checked through `as_int`, the library's own `==` and `to_bytes()`.
//! The oracle is an independent bigint-style implementation (u128 add/double-and-add) of arithmetic
//! modulo the documented prime and irreducible polynomial.
use std::sync::mpsc;
use std::time::Duration;

use winter_math::{
    fields::{f128, f62, f64, CubeExtension, QuadExtension},
    ExtensionOf, FieldElement, StarkField,
};

use crate::out::Out;
use crate::rng::Rng;

// ---------------------------------------------------------------------------------------------
// oracle: arithmetic modulo p and modulo the documented polynomial
// ---------------------------------------------------------------------------------------------
pub const P64: u128 = 18446744069414584321;
pub const P62: u128 = 4611624995532046337;
pub const P128: u128 = 340282366920938463463374557953744961537;

pub fn addmod(a: u128, b: u128, p: u128) -> u128 {
    let (s, o) = a.overflowing_add(b);
    if o || s >= p { s.wrapping_sub(p) } else { s }
}
pub fn submod(a: u128, b: u128, p: u128) -> u128 {
    if a >= b { a - b } else { p - (b - a) }
}
pub fn mulmod(a: u128, b: u128, p: u128) -> u128 {
    let (mut r, mut x, mut k) = (0u128, a % p, b % p);
    while k > 0 {
        if k & 1 == 1 { r = addmod(r, x, p); }
        x = addmod(x, x, p);
        k >>= 1;
    }
    r
}

#[derive(Clone, Copy)]
pub struct Spec { pub p: u128, pub deg: usize, pub red: [u128; 3] }

pub fn spec(name: &str) -> Spec {
    match name {
        "f64" => Spec { p: P64, deg: 1, red: [0; 3] },
        "f64x2" => Spec { p: P64, deg: 2, red: [P64 - 2, 1, 0] },
        "f64x3" => Spec { p: P64, deg: 3, red: [1, 1, 0] },
        "f62" => Spec { p: P62, deg: 1, red: [0; 3] },
        "f62x2" => Spec { p: P62, deg: 2, red: [1, 1, 0] },
        "f62x3" => Spec { p: P62, deg: 3, red: [P62 - 2, P62 - 2, 0] },
        "f128" => Spec { p: P128, deg: 1, red: [0; 3] },
        "f128x2" => Spec { p: P128, deg: 2, red: [1, 1, 0] },
        _ => panic!("spec"),
    }
}

type E = Vec<u128>;

pub fn o_add(s: &Spec, a: &E, b: &E) -> E { (0..s.deg).map(|i| addmod(a[i], b[i], s.p)).collect() }
pub fn o_sub(s: &Spec, a: &E, b: &E) -> E { (0..s.deg).map(|i| submod(a[i], b[i], s.p)).collect() }
pub fn o_mul(s: &Spec, a: &E, b: &E) -> E {
    let d = s.deg;
    let mut c = vec![0u128; 2 * d - 1];
    for i in 0..d { for j in 0..d { c[i + j] = addmod(c[i + j], mulmod(a[i], b[j], s.p), s.p); } }
    for k in (d..2 * d - 1).rev() {
        let top = c[k];
        c[k] = 0;
        for i in 0..d { c[k - d + i] = addmod(c[k - d + i], mulmod(top, s.red[i], s.p), s.p); }
    }
    c.truncate(d);
    c
}
pub fn o_one(s: &Spec) -> E { let mut v = vec![0; s.deg]; v[0] = 1; v }
pub fn o_pow(s: &Spec, a: &E, bits: &[bool]) -> E {
    // bits: little-endian exponent
    let mut r = o_one(s);
    let mut b = a.clone();
    for &bit in bits { if bit { r = o_mul(s, &r, &b); } b = o_mul(s, &b, &b); }
    r
}
fn bits_of(mut n: u128) -> Vec<bool> { let mut v = vec![]; while n > 0 { v.push(n & 1 == 1); n >>= 1; } v }
/// little-endian bits of p^deg - 2 (schoolbook bignum on u32 limbs)
fn order_minus_2_bits(s: &Spec) -> Vec<bool> {
    let mut limbs: Vec<u64> = vec![1];
    for _ in 0..s.deg {
        // limbs *= p
        let plimbs = [(s.p & 0xffff_ffff) as u64, ((s.p >> 32) & 0xffff_ffff) as u64, ((s.p >> 64) & 0xffff_ffff) as u64, (s.p >> 96) as u64];
        let mut out = vec![0u64; limbs.len() + 4];
        for (i, &l) in limbs.iter().enumerate() {
            let mut carry = 0u64;
            for (j, &q) in plimbs.iter().enumerate() {
                let cur = out[i + j] + l * q + carry;
                out[i + j] = cur & 0xffff_ffff;
                carry = cur >> 32;
            }
            let mut k = i + 4;
            while carry > 0 { let cur = out[k] + carry; out[k] = cur & 0xffff_ffff; carry = cur >> 32; k += 1; }
        }
        limbs = out;
    }
    // subtract 2
    let mut borrow = 2i64;
    for l in limbs.iter_mut() {
        let cur = *l as i64 - borrow;
        if cur < 0 { *l = (cur + (1i64 << 32)) as u64; borrow = 1; } else { *l = cur as u64; borrow = 0; }
    }
    let mut bits = vec![];
    for l in &limbs { for k in 0..32 { bits.push((l >> k) & 1 == 1); } }
    while bits.last() == Some(&false) { bits.pop(); }
    bits
}
pub fn o_inv(s: &Spec, a: &E) -> E {
    if a.iter().all(|&x| x == 0) { return a.clone(); }
    o_pow(s, a, &order_minus_2_bits(s))
}
pub fn o_frob(s: &Spec, a: &E) -> E { o_pow(s, a, &bits_of(s.p)) }

pub fn show(e: &[u128]) -> String { e.iter().map(|x| x.to_string()).collect::<Vec<_>>().join(",") }

// ---------------------------------------------------------------------------------------------
// implementation side
// ---------------------------------------------------------------------------------------------
pub trait Fld: FieldElement {
    const NAME: &'static str;
    fn from_canon(c: &[u128]) -> Self;
    fn to_canon(&self) -> Vec<u128>;
    fn mul_base_canon(self, b: u128) -> Self;
    fn pow_canon(self, e: u128) -> Self;
}

macro_rules! base_fld {
    ($t:ty, $name:expr, $int:ty) => {
        impl Fld for $t {
            const NAME: &'static str = $name;
            fn from_canon(c: &[u128]) -> Self { <$t>::new(c[0] as $int) }
            fn to_canon(&self) -> Vec<u128> { vec![self.as_int() as u128] }
            fn mul_base_canon(self, b: u128) -> Self { self * <$t>::new(b as $int) }
            fn pow_canon(self, e: u128) -> Self { self.exp(e as $int) }
        }
    };
}
base_fld!(f64::BaseElement, "f64", u64);
base_fld!(f62::BaseElement, "f62", u64);
base_fld!(f128::BaseElement, "f128", u128);

macro_rules! quad_fld {
    ($b:ty, $name:expr, $int:ty) => {
        impl Fld for QuadExtension<$b> {
            const NAME: &'static str = $name;
            fn from_canon(c: &[u128]) -> Self { QuadExtension::new(<$b>::new(c[0] as $int), <$b>::new(c[1] as $int)) }
            fn to_canon(&self) -> Vec<u128> { self.to_base_elements().iter().map(|x| x.as_int() as u128).collect() }
            fn mul_base_canon(self, b: u128) -> Self { self.mul_base(<$b>::new(b as $int)) }
            fn pow_canon(self, e: u128) -> Self { self.exp(e as $int) }
        }
    };
}
quad_fld!(f64::BaseElement, "f64x2", u64);
quad_fld!(f62::BaseElement, "f62x2", u64);
quad_fld!(f128::BaseElement, "f128x2", u128);

macro_rules! cube_fld {
    ($b:ty, $name:expr, $int:ty) => {
        impl Fld for CubeExtension<$b> {
            const NAME: &'static str = $name;
            fn from_canon(c: &[u128]) -> Self { CubeExtension::new(<$b>::new(c[0] as $int), <$b>::new(c[1] as $int), <$b>::new(c[2] as $int)) }
            fn to_canon(&self) -> Vec<u128> { self.to_base_elements().iter().map(|x| x.as_int() as u128).collect() }
            fn mul_base_canon(self, b: u128) -> Self { self.mul_base(<$b>::new(b as $int)) }
            fn pow_canon(self, e: u128) -> Self { self.exp(e as $int) }
        }
    };
}
cube_fld!(f64::BaseElement, "f64x3", u64);
cube_fld!(f62::BaseElement, "f62x3", u64);

/// run `f` in a helper thread; a computation that does not finish in 3 s is reported as `hang`
pub fn with_timeout<F: FnOnce() -> String + Send + 'static>(f: F) -> String {
    let (tx, rx) = mpsc::channel();
    std::thread::spawn(move || { let _ = tx.send(f()); });
    match rx.recv_timeout(Duration::from_secs(3)) {
        Ok(s) => s,
        Err(mpsc::RecvTimeoutError::Timeout) => "hang".to_string(),
        Err(_) => "abort".to_string(),
    }
}

fn gen_coord(rng: &mut Rng, p: u128) -> u128 {
    let v = match rng.below(10) {
        0 => rng.below(3) as u128,
        1 => p - 1 - rng.below(3) as u128,
        2 => (p - 1) / 2 + rng.below(3) as u128,
        3 => (1u128 << 32) - 1 + rng.below(3) as u128,
        4 => (1u128 << 63) - 2 + rng.below(4) as u128,
        5 => { let k = rng.below(127) as u32; (1u128 << k).wrapping_add(rng.below(3) as u128).wrapping_sub(1) },
        _ => rng.next128(),
    };
    v % p
}

fn run_field<F: Fld + Send + 'static>(rng: &mut Rng, out: &mut Out, n: usize) {
    let s = spec(F::NAME);
    let name = F::NAME;
    let unary = ["neg", "double", "square", "cube", "inv", "conj"];
    let binary = ["add", "sub", "mul", "div", "eq"];
    for it in 0..n {
        let a: E = (0..s.deg).map(|_| gen_coord(rng, s.p)).collect();
        let mut b: E = (0..s.deg).map(|_| gen_coord(rng, s.p)).collect();
        if it % 7 == 0 { b = a.clone(); }
        if it % 11 == 0 { b = (0..s.deg).map(|i| submod(0, a[i], s.p)).collect(); }
        if it % 13 == 0 { b = vec![0; s.deg]; }
        for op in unary {
            let exp = match op {
                "neg" => o_sub(&s, &vec![0; s.deg], &a),
                "double" => o_add(&s, &a, &a),
                "square" => o_mul(&s, &a, &a),
                "cube" => o_mul(&s, &o_mul(&s, &a, &a), &a),
                "inv" => o_inv(&s, &a),
                _ => if s.deg == 1 { a.clone() } else { o_frob(&s, &a) },
            };
            let a2 = a.clone();
            out.count(&format!("{name}:{op}"));
            out.case(&format!("c10 {name} {op} {}", show(&a)), &show(&exp), move || with_timeout(move || {
                let x = F::from_canon(&a2);
                let r = match op { "neg" => -x, "double" => x.double(), "square" => x.square(), "cube" => x.cube(), "inv" => x.inv(), _ => x.conjugate() };
                show(&r.to_canon())
            }));
        }
        for op in binary {
            let exp = match op {
                "add" => show(&o_add(&s, &a, &b)),
                "sub" => show(&o_sub(&s, &a, &b)),
                "mul" => show(&o_mul(&s, &a, &b)),
                "div" => show(&o_mul(&s, &a, &o_inv(&s, &b))),
                _ => if a == b { "t".to_string() } else { "f".to_string() },
            };
            let (a2, b2) = (a.clone(), b.clone());
            out.count(&format!("{name}:{op}"));
            out.case(&format!("c10 {name} {op} {} {}", show(&a), show(&b)), &exp, move || with_timeout(move || {
                let (x, y) = (F::from_canon(&a2), F::from_canon(&b2));
                match op { "add" => show(&(x + y).to_canon()), "sub" => show(&(x - y).to_canon()), "mul" => show(&(x * y).to_canon()),
                    "div" => show(&(x / y).to_canon()), _ => if x == y { "t".into() } else { "f".into() } }
            }));
        }
        // equality and inversion on values produced by operation chains (non-canonical intermediates):
        // (a + b) - b == a ; (a - a).inv() == 0 ; (a + (-a)) == 0
        let (a2, b2) = (a.clone(), b.clone());
        out.count(&format!("{name}:chain"));
        out.case(&format!("c10 {name} add {} {}", show(&o_sub(&s, &vec![0; s.deg], &a)), show(&a)), &show(&vec![0u128; s.deg]), move || with_timeout(move || {
            let (x, y) = (F::from_canon(&a2), F::from_canon(&b2));
            let z = x + (-x);
            let w = (x + y) - y;
            let ok = z == F::ZERO && (x - x) == F::ZERO && w == x && z.inv() == F::ZERO && (x - x).inv() == F::ZERO && (y / y == F::ONE || y == F::ZERO) && x.double() == x + x;
            if ok { show(&z.to_canon()) } else { format!("chain-mismatch z={} w={}", show(&z.to_canon()), show(&w.to_canon())) }
        }));
        // exponentiation with boundary exponents
        let e: u128 = match rng.below(8) { 0 => 0, 1 => 1, 2 => 2, 3 => (s.p - 1) & 0xffff_ffff_ffff_ffff, 4 => u64::MAX as u128, 5 => 1u128 << rng.below(64), _ => rng.next() as u128 };
        let e = if s.p == P128 { match rng.below(4) { 0 => s.p - 1, 1 => s.p - 2, 2 => u128::MAX, _ => e } } else { e };
        let exp = if e == 0 { o_one(&s) } else { o_pow(&s, &a, &bits_of(e)) };
        let a2 = a.clone();
        out.count(&format!("{name}:exp"));
        out.case(&format!("c10 {name} exp {} {e}", show(&a)), &show(&exp), move || with_timeout(move || {
            let x = F::from_canon(&a2);
            let r = x.pow_canon(e);
            show(&r.to_canon())
        }));
        if s.deg > 1 {
            let k = gen_coord(rng, s.p);
            let exp: E = a.iter().map(|&x| mulmod(x, k, s.p)).collect();
            let a2 = a.clone();
            out.case(&format!("c10 {name} mulbase {} {k}", show(&a)), &show(&exp), move || show(&F::from_canon(&a2).mul_base_canon(k).to_canon()));
        }
    }
}

/// representation-level stream for f64: raw Montgomery words in [0, M)
fn run_f64_inner(rng: &mut Rng, out: &mut Out, n: usize) {
    use f64::BaseElement as B;
    const M: u64 = 0xffff_ffff_0000_0001;
    let dict: Vec<u64> = vec![0, 1, 2, 0xffff_ffff, 0x1_0000_0000, 0x1_0000_0001, 0x7fff_ffff_7fff_ffff, 0x7fff_ffff_8000_0000,
        0x7fff_ffff_8000_0001, (1u64 << 63) - 1, 1u64 << 63, (1u64 << 63) + 1, 0xffff_fffe_ffff_ffff, 0xffff_ffff_0000_0000, M - 1, M - 2,
        0x5555_5555_5555_5555, 0xaaaa_aaaa_aaaa_aaaa, 0xffff_fffe_0000_0001, 0xffff_fffe_0000_0002, 0x8000_0000_0000_0000 - 0x8000_0000];
    let pick = |rng: &mut Rng| -> u64 {
        let v = match rng.below(4) { 0 => *rng.pick(&dict), 1 => rng.pick(&dict).wrapping_add(rng.below(5)).wrapping_sub(2), 2 => rng.biased(64) as u64, _ => rng.next() };
        v % M
    };
    let val = |x: u64| -> u128 { B::from_mont(x).as_int() as u128 };
    let r = |e: B| -> String { format!("{} {}", e.inner(), e.as_int()) };
    for _ in 0..n {
        let (a, b) = (pick(rng), pick(rng));
        let (va, vb) = (val(a), val(b));
        let (ea, eb) = (B::from_mont(a), B::from_mont(b));
        out.count("f64i");
        // oracle: canonical value of the result (second field); the raw word (first field) must be < M
        let pat = |v: u128| format!("~^(?:[0-9]+) {v}$");
        out.case(&format!("c10 f64i add {a} {b}"), &pat(addmod(va, vb, P64)), || r(ea + eb));
        out.case(&format!("c10 f64i sub {a} {b}"), &pat(submod(va, vb, P64)), || r(ea - eb));
        out.case(&format!("c10 f64i mul {a} {b}"), &pat(mulmod(va, vb, P64)), || r(ea * eb));
        out.case(&format!("c10 f64i neg {a}"), &pat(submod(0, va, P64)), || r(-ea));
        out.case(&format!("c10 f64i double {a}"), &pat(addmod(va, va, P64)), || r(ea.double()));
        out.case(&format!("c10 f64i new {a}"), &pat(a as u128 % P64), || r(B::new(a)));
        out.case(&format!("c10 f64i inv {a}"), &pat(o_inv(&spec("f64"), &vec![va])[0]), || r(ea.inv()));
        out.case(&format!("c10 f64i exp7 {a}"), &pat(o_pow(&spec("f64"), &vec![va], &[true, true, true])[0]), || r(ea.exp7()));
        let k = match rng.below(4) { 0 => 0u32, 1 => u32::MAX, 2 => 3, _ => rng.next() as u32 };
        out.case(&format!("c10 f64i mulsmall {a} {k}"), &pat(mulmod(va, k as u128, P64)), || r(ea.mul_small(k)));
        out.case(&format!("c10 f64i eq {a} {b}"), if va == vb { "t" } else { "f" }, || if ea == eb { "t".into() } else { "f".into() });
        // every result must stay in the reduced range (checked on the raw word)
        for (nm, e) in [("add", ea + eb), ("sub", ea - eb), ("mul", ea * eb), ("double", ea.double()), ("mulsmall", ea.mul_small(k)), ("neg", -ea)] {
            if e.inner() >= M {
                out.case(&format!("c10 f64i {nm} {a} {b}"), "reduced", || format!("unreduced inner {}", e.inner()));
            }
        }
    }
}

// ---------------------------------------------------------------------------------------------
// representation-level stream for ALL fields: operands are built by operation chains, so that
// non-canonical stored words take part (f62: both words of zero, words in [M, 2M)); every result r
// is compared with the oracle at three levels: canonical integers (`as_int`), the library's own
// `==` against `new(expected)`, and `to_bytes()` against the canonical little-endian bytes.
//   c10 <field> rep <op> <term> [<term>] = <expected>      answer: `<canon> eq=<t|f> bytes=<t|f>`
//   c10 <field> rep eq <term> <term>                       answer: `t` | `f`
//   term = <tag>:<elem>[:<elem>]
// ---------------------------------------------------------------------------------------------
#[derive(Clone)]
pub struct Term { pub tag: &'static str, pub v: E, pub w: Option<E> }

/// tags whose value is zero whatever the argument is
const ZERO_TAGS: [&str; 7] = ["xnx", "nxx", "xmx", "nz", "nzz", "zmz", "dmd"];

pub fn term_show(t: &Term) -> String {
    match &t.w { Some(w) => format!("{}:{}:{}", t.tag, show(&t.v), show(w)), None => format!("{}:{}", t.tag, show(&t.v)) }
}

/// oracle value of a term
pub fn term_val(s: &Spec, t: &Term) -> E {
    let zero = vec![0u128; s.deg];
    let w = || t.w.clone().expect("binary term");
    match t.tag {
        "c" => t.v.clone(),
        "xp1" => o_add(s, &t.v, &o_one(s)),
        "neg" => o_sub(s, &zero, &t.v),
        "nn" => t.v.clone(),
        "add" => o_add(s, &t.v, &w()),
        "sub" => o_sub(s, &t.v, &w()),
        "mul" => o_mul(s, &t.v, &w()),
        "apm" => t.v.clone(),
        tag if ZERO_TAGS.contains(&tag) => zero,
        _ => panic!("term"),
    }
}

/// the element a term denotes, built with the library's own operations
pub fn term_build<F: Fld>(t: &Term) -> F {
    let x = F::from_canon(&t.v);
    let y = || F::from_canon(t.w.as_ref().expect("binary term"));
    match t.tag {
        "c" => x,
        "xnx" => x + (-x),              // f62: the word M for x != 0
        "nxx" => (-x) + x,
        "xmx" => x - x,
        "nz" => -F::ZERO,
        "nzz" => -(x + (-x)),           // minus the second zero
        "zmz" => F::ZERO - F::ZERO,
        "dmd" => x.double() - (x + x),
        "xp1" => x + F::ONE,            // with x = p-1: a zero produced by a carry
        "neg" => -x,
        "nn" => -(-x),
        "add" => x + y(),
        "sub" => x - y(),
        "mul" => x * y(),
        "apm" => (x + y()) - y(),       // value x, word possibly in [M, 2M)
        _ => panic!("term"),
    }
}

fn tf(b: bool) -> &'static str { if b { "t" } else { "f" } }

/// canonical little-endian bytes of an element given by canonical integers
pub fn canon_bytes<F: Fld>(e: &[u128]) -> Vec<u8> {
    let width = F::ELEMENT_BYTES / e.len();
    let mut out = Vec::with_capacity(F::ELEMENT_BYTES);
    for c in e { out.extend_from_slice(&c.to_le_bytes()[..width]); }
    out
}

fn rep_answer<F: Fld>(r: F, exp: &[u128]) -> String {
    let same = r == F::from_canon(exp);
    let bytes = winter_utils::Serializable::to_bytes(&r) == canon_bytes::<F>(exp);
    format!("{} eq={} bytes={}", show(&r.to_canon()), tf(same), tf(bytes))
}

fn rep_case<F: Fld + Send + 'static>(out: &mut Out, s: &Spec, op: &'static str, a: &Term, b: Option<&Term>) {
    let name = F::NAME;
    let (va, vb) = (term_val(s, a), b.map(|t| term_val(s, t)));
    out.count(&format!("{name}:rep:{op}"));
    out.count(&format!("{name}:rep-operand:{}", a.tag));
    if op == "eq" {
        let b = b.expect("eq is binary").clone();
        let exp = tf(va == vb.clone().unwrap());
        let a2 = a.clone();
        out.case(&format!("c10 {name} rep eq {} {}", term_show(a), term_show(&b)), exp, move || with_timeout(move || {
            tf(term_build::<F>(&a2) == term_build::<F>(&b)).to_string()
        }));
        return;
    }
    let zero = vec![0u128; s.deg];
    let exp: E = match op {
        "id" => va.clone(),
        "neg" => o_sub(s, &zero, &va),
        "double" => o_add(s, &va, &va),
        "square" => o_mul(s, &va, &va),
        "inv" => o_inv(s, &va),
        "conj" => if s.deg == 1 { va.clone() } else { o_frob(s, &va) },
        "add" => o_add(s, &va, vb.as_ref().unwrap()),
        "sub" => o_sub(s, &va, vb.as_ref().unwrap()),
        "mul" => o_mul(s, &va, vb.as_ref().unwrap()),
        "div" => o_mul(s, &va, &o_inv(s, vb.as_ref().unwrap())),
        _ => panic!("rep op"),
    };
    let req = match b {
        Some(b) => format!("c10 {name} rep {op} {} {} = {}", term_show(a), term_show(b), show(&exp)),
        None => format!("c10 {name} rep {op} {} = {}", term_show(a), show(&exp)),
    };
    let (a2, b2, exp2) = (a.clone(), b.cloned(), exp.clone());
    out.case(&req, &format!("{} eq=t bytes=t", show(&exp)), move || with_timeout(move || {
        let x = term_build::<F>(&a2);
        let r = match (op, b2) {
            ("id", _) => x,
            ("neg", _) => -x,
            ("double", _) => x.double(),
            ("square", _) => x.square(),
            ("inv", _) => x.inv(),
            ("conj", _) => x.conjugate(),
            ("add", Some(b)) => x + term_build::<F>(&b),
            ("sub", Some(b)) => x - term_build::<F>(&b),
            ("mul", Some(b)) => x * term_build::<F>(&b),
            ("div", Some(b)) => x / term_build::<F>(&b),
            _ => panic!("rep op"),
        };
        rep_answer(r, &exp2)
    }));
}

const REP_UNARY: [&str; 6] = ["id", "neg", "double", "square", "inv", "conj"];
const REP_BINARY: [&str; 5] = ["add", "sub", "mul", "div", "eq"];

fn run_rep<F: Fld + Send + 'static>(rng: &mut Rng, out: &mut Out, n: usize) {
    let s = spec(F::NAME);
    let t1 = |tag: &'static str, v: &E| Term { tag, v: v.clone(), w: None };
    let zero = vec![0u128; s.deg];
    let mut pm1 = vec![0u128; s.deg];
    pm1[0] = s.p - 1;
    let a: E = (0..s.deg).map(|_| 1 + gen_coord(rng, s.p - 1)).collect();
    // every way of writing zero (f62: the words 0 and M), and a few non-zero words
    let zeros: Vec<Term> = vec![t1("c", &zero), t1("xnx", &a), t1("nxx", &a), t1("xmx", &a), t1("nz", &zero), t1("nzz", &a),
        t1("zmz", &zero), t1("xp1", &pm1), t1("xnx", &zero), t1("dmd", &a)];
    let others: Vec<Term> = vec![t1("c", &a), t1("neg", &a), t1("nn", &a), t1("c", &o_one(&s)), t1("c", &pm1),
        Term { tag: "apm", v: a.clone(), w: Some(pm1.clone()) }];
    // 1. exhaustive over the zero forms: unary ops, and binary ops on all pairs of zero forms
    for z in &zeros {
        for op in REP_UNARY { rep_case::<F>(out, &s, op, z, None); }
        for z2 in &zeros {
            for op in ["add", "sub", "mul", "eq"] { rep_case::<F>(out, &s, op, z, Some(z2)); }
        }
        for o in &others {
            for op in REP_BINARY { rep_case::<F>(out, &s, op, z, Some(o)); rep_case::<F>(out, &s, op, o, Some(z)); }
        }
    }
    // 2. random terms and operations
    let gen_term = |rng: &mut Rng| -> Term {
        let v: E = (0..s.deg).map(|_| gen_coord(rng, s.p)).collect();
        let w: E = (0..s.deg).map(|_| gen_coord(rng, s.p)).collect();
        match rng.below(16) {
            0 => Term { tag: "xnx", v, w: None },
            1 => Term { tag: "nxx", v, w: None },
            2 => Term { tag: "xmx", v, w: None },
            3 => Term { tag: "nz", v: zero.clone(), w: None },
            4 => Term { tag: "nzz", v, w: None },
            5 => Term { tag: "xp1", v: if rng.below(2) == 0 { pm1.clone() } else { v }, w: None },
            6 => Term { tag: "neg", v: if rng.below(3) == 0 { zero.clone() } else { v }, w: None },
            7 => Term { tag: "nn", v, w: None },
            8 => Term { tag: "add", v, w: Some(w) },
            9 => { let w2 = if rng.below(3) == 0 { v.clone() } else { w }; Term { tag: "sub", v, w: Some(w2) } }
            10 => Term { tag: "mul", v, w: Some(w) },
            11 | 12 => Term { tag: "apm", v, w: Some(w) },
            13 => Term { tag: "dmd", v, w: None },
            _ => Term { tag: "c", v, w: None },
        }
    };
    for _ in 0..n {
        let (ta, tb) = (gen_term(rng), gen_term(rng));
        let tb = if rng.below(6) == 0 { Term { tag: "neg", v: term_val(&s, &ta), w: None } } else { tb };
        let op = *rng.pick(&REP_UNARY);
        rep_case::<F>(out, &s, op, &ta, None);
        let op = *rng.pick(&REP_BINARY);
        rep_case::<F>(out, &s, op, &ta, Some(&tb));
        rep_case::<F>(out, &s, "eq", &ta, Some(&tb));
    }
}

pub fn run(rng: &mut Rng, out: &mut Out, n: usize) {
    run_f64_inner(rng, out, 4 * n);
    run_field::<f64::BaseElement>(rng, out, n);
    run_field::<f62::BaseElement>(rng, out, n);
    run_field::<f128::BaseElement>(rng, out, n);
    run_field::<QuadExtension<f64::BaseElement>>(rng, out, n);
    run_field::<QuadExtension<f62::BaseElement>>(rng, out, n);
    run_field::<QuadExtension<f128::BaseElement>>(rng, out, n);
    run_field::<CubeExtension<f64::BaseElement>>(rng, out, n / 2 + 1);
    run_field::<CubeExtension<f62::BaseElement>>(rng, out, n / 2 + 1);
    // representation level, all fields (appended: the cases above keep their seeds)
    run_rep::<f64::BaseElement>(rng, out, n);
    run_rep::<f62::BaseElement>(rng, out, 2 * n);
    run_rep::<f128::BaseElement>(rng, out, n);
    run_rep::<QuadExtension<f64::BaseElement>>(rng, out, n / 2 + 1);
    run_rep::<QuadExtension<f62::BaseElement>>(rng, out, n / 2 + 1);
    run_rep::<QuadExtension<f128::BaseElement>>(rng, out, n / 2 + 1);
    run_rep::<CubeExtension<f64::BaseElement>>(rng, out, n / 4 + 1);
    run_rep::<CubeExtension<f62::BaseElement>>(rng, out, n / 4 + 1);
}
