//! C21: assertion step sets, trace-length validation and overlap detection.
//!
//! Request lines (`c21 <op> ..`); an assertion is written as the constructor call that makes it:
//! `s:<col>:<step>:<v>`, `p:<col>:<first>:<stride>:<v>`, `q:<col>:<first>:<stride>:<v1,v2,..|->`.
//!   new <a>             -> `ok col first stride #values` | `abort <assert kind>`
//!   vlen <a> <t>        -> `ok` | `err notpow2 t` | `err tooshort e t` | `err notexact e t`
//!   vwidth <a> <w>      -> `ok` | `err width col w`
//!   steps <a> <t>       -> `<get_num_steps> <step:value,..>` (from `apply`) | `abort`
//!   pair <n> <a> <b>    -> `<a.overlaps_with(b)> <b.overlaps_with(a)>`
//!   prep <w> <t> <a>..  -> `ok <columns grouped by (stride, first)>` | `abort invalid|overlap`
//!                          (through `BoundaryConstraints::new`, i.e. the real `prepare_assertions`)
//! The oracles never look at the implementation: step sets are explicit loops over 0..n.
use std::panic::{catch_unwind, AssertUnwindSafe};

use winter_air::{
    AirContext, Assertion, AssertionError, BatchingMethod, BoundaryConstraints, FieldExtension,
    ProofOptions, TraceInfo, TransitionConstraintDegree,
};
use winter_math::fields::f64::BaseElement;

use crate::out::Out;
use crate::rng::Rng;

type A = Assertion<BaseElement>;

#[derive(Clone, Debug)]
enum Call {
    Single(usize, usize, u64),
    Periodic(usize, usize, usize, u64),
    Sequence(usize, usize, usize, Vec<u64>),
}

fn is_pow2(n: usize) -> bool { n != 0 && n & (n - 1) == 0 }

impl Call {
    fn token(&self) -> String {
        match self {
            Call::Single(c, s, v) => format!("s:{c}:{s}:{v}"),
            Call::Periodic(c, f, st, v) => format!("p:{c}:{f}:{st}:{v}"),
            Call::Sequence(c, f, st, vs) => format!(
                "q:{c}:{f}:{st}:{}",
                if vs.is_empty() { "-".to_string() } else { vs.iter().map(|v| v.to_string()).collect::<Vec<_>>().join(",") }
            ),
        }
    }
    /// the real constructor (panics on invalid arguments)
    fn build(&self) -> A {
        match self {
            Call::Single(c, s, v) => Assertion::single(*c, *s, BaseElement::new(*v)),
            Call::Periodic(c, f, st, v) => Assertion::periodic(*c, *f, *st, BaseElement::new(*v)),
            Call::Sequence(c, f, st, vs) => Assertion::sequence(*c, *f, *st, vs.iter().map(|v| BaseElement::new(*v)).collect()),
        }
    }
    fn column(&self) -> usize {
        match self { Call::Single(c, ..) | Call::Periodic(c, ..) | Call::Sequence(c, ..) => *c }
    }
    /// ORACLE: documented outcome of the constructor
    fn expect_new(&self) -> String {
        let stride_check = |st: usize, f: usize| -> Option<&'static str> {
            if !is_pow2(st) { Some("abort stride-pow2") }
            else if st < 2 { Some("abort stride-min") }
            else if f >= st { Some("abort first-step") }
            else { None }
        };
        match self {
            Call::Single(c, s, _) => format!("ok {c} {s} 0 1"),
            Call::Periodic(c, f, st, _) => match stride_check(*st, *f) {
                Some(e) => e.to_string(),
                None => format!("ok {c} {f} {st} 1"),
            },
            Call::Sequence(c, f, st, vs) => match stride_check(*st, *f) {
                Some(e) => e.to_string(),
                None if vs.is_empty() => "abort no-values".to_string(),
                None if !is_pow2(vs.len()) => "abort values-pow2".to_string(),
                None => format!("ok {c} {f} {} {}", if vs.len() == 1 { 0 } else { *st }, vs.len()),
            },
        }
    }
    /// ORACLE: the explicit (step, value) list for a trace of length `n`, `None` if the (valid)
    /// assertion cannot be placed against such a trace.  Written as scans over all rows 0..n.
    fn explicit(&self, n: usize) -> Option<Vec<(usize, u64)>> {
        if !is_pow2(n) { return None; }
        match self {
            Call::Single(_, s, v) => if *s < n { Some(vec![(*s, *v)]) } else { None },
            Call::Periodic(_, f, st, v) => {
                if *st > n { return None; }
                Some((0..n).filter(|s| *s >= *f && (*s - *f) % *st == 0).map(|s| (s, *v)).collect())
            },
            Call::Sequence(_, f, st, vs) => {
                if vs.len() == 1 {
                    // a one-value sequence is a single assertion
                    return if *f < n { Some(vec![(*f, vs[0])]) } else { None };
                }
                if vs.len() * *st != n { return None; }
                let mut res = Vec::new();
                let mut k = 0;
                for s in 0..n {
                    if s >= *f && (s - *f) % *st == 0 && k < vs.len() { res.push((s, vs[k])); k += 1; }
                }
                if k == vs.len() { Some(res) } else { None }
            },
        }
    }
    fn mask(&self, n: usize) -> Option<u128> {
        self.explicit(n).map(|l| l.iter().fold(0u128, |m, (s, _)| m | (1u128 << *s)))
    }
}

fn panic_kind(e: Box<dyn std::any::Any + Send>) -> String {
    let msg = if let Some(s) = e.downcast_ref::<String>() { s.clone() } else if let Some(s) = e.downcast_ref::<&str>() { s.to_string() } else { String::new() };
    let kind = if msg.contains("stride must be a power of two") { "stride-pow2" }
        else if msg.contains("stride must be at least") { "stride-min" }
        else if msg.contains("first step must be smaller than stride") { "first-step" }
        else if msg.contains("must be greater than zero") { "no-values" }
        else if msg.contains("number of asserted values must be a power of two") { "values-pow2" }
        else if msg.contains("overlaps with assertion") { "overlap" }
        else if msg.contains("is invalid") { "invalid" }
        else { "other" };
    format!("abort {kind}")
}

fn show_err(e: &AssertionError) -> String {
    match e {
        AssertionError::TraceWidthTooShort(a, b) => format!("err width {a} {b}"),
        AssertionError::TraceLengthNotPowerOfTwo(a) => format!("err notpow2 {a}"),
        AssertionError::TraceLengthTooShort(a, b) => format!("err tooshort {a} {b}"),
        AssertionError::TraceLengthNotExact(a, b) => format!("err notexact {a} {b}"),
    }
}

fn seq_vals(len: usize) -> Vec<u64> { (1..=len as u64).collect() }

/// every constructor call whose result is valid for a trace of length `n` (both kinds of stride,
/// every first step, every value count), for columns 0..cols
fn valid_for(n: usize, cols: usize, one_value_sequences: bool) -> Vec<Call> {
    let mut res = Vec::new();
    for c in 0..cols {
        for s in 0..n { res.push(Call::Single(c, s, 7 + s as u64)); }
        let mut st = 2;
        while st <= n {
            for f in 0..st { res.push(Call::Periodic(c, f, st, 3 + f as u64)); }
            if st * 2 <= n {
                for f in 0..st { res.push(Call::Sequence(c, f, st, seq_vals(n / st))); }
            }
            if one_value_sequences {
                for f in 0..st.min(n) { res.push(Call::Sequence(c, f, st, vec![9])); }
            }
            st *= 2;
        }
    }
    res
}

/// every valid constructor call with stride, step and implied length up to `m2` (column 0, plus a
/// few on column 1)
fn universe(m2: usize) -> Vec<Call> {
    let mut res = Vec::new();
    for s in 0..=m2 { res.push(Call::Single(0, s, 5)); }
    let mut st = 2;
    while st <= m2 {
        for f in 0..st {
            res.push(Call::Periodic(0, f, st, 4));
            let mut len = 2;
            while len * st <= m2 { res.push(Call::Sequence(0, f, st, seq_vals(len))); len *= 2; }
            if st <= 4 { res.push(Call::Sequence(1, f, st, vec![6])); }
        }
        st *= 2;
    }
    res.push(Call::Single(1, 3, 1));
    res.push(Call::Periodic(1, 1, 2, 1));
    res
}

fn lengths(m2: usize) -> Vec<usize> {
    let mut t: Vec<usize> = (0..=34.min(m2 + 1)).collect();
    let mut p = 1;
    while p <= m2 {
        for v in [p - 1, p, p + 1, 3 * p] { if !t.contains(&v) { t.push(v); } }
        p *= 2;
    }
    t.push(2 * m2);
    t.sort();
    t.dedup();
    t
}

fn prep_case(out: &mut Out, w: usize, n: usize, calls: &[Call]) {
    let req = format!("c21 prep {w} {n} {}", calls.iter().map(|c| c.token()).collect::<Vec<_>>().join(" "));
    // ORACLE: the first assertion (in list order) that is out of range / does not fit / shares a
    // cell with an earlier one decides; otherwise the natural order (stride, first step, column)
    let mut expect: Option<&str> = None;
    let mut seen: Vec<(usize, u128)> = Vec::new();
    for c in calls {
        match c.mask(n) {
            Some(m) if c.column() < w => {
                if seen.iter().any(|(col, m2)| *col == c.column() && m2 & m != 0) { expect = Some("abort overlap"); break; }
                seen.push((c.column(), m));
            },
            _ => { expect = Some("abort invalid"); break; },
        }
    }
    let expect = match expect {
        Some(e) => e.to_string(),
        None => {
            let mut keys: Vec<(usize, usize, usize)> = calls.iter().map(|c| match c {
                Call::Single(col, s, _) => (0, *s, *col),
                Call::Periodic(col, f, st, _) => (*st, *f, *col),
                Call::Sequence(col, f, st, vs) => (if vs.len() == 1 { 0 } else { *st }, *f, *col),
            }).collect();
            keys.sort();
            let mut groups: Vec<Vec<String>> = Vec::new();
            let mut last = None;
            for (st, f, col) in keys {
                if last != Some((st, f)) { groups.push(Vec::new()); last = Some((st, f)); }
                groups.last_mut().unwrap().push(col.to_string());
            }
            format!("ok {}", groups.iter().map(|g| g.join(",")).collect::<Vec<_>>().join(";"))
        },
    };
    out.count(if expect.starts_with("ok") { "prep:accepted" } else if expect.ends_with("overlap") { "prep:overlap" } else { "prep:invalid" });
    let assertions: Vec<A> = calls.iter().map(|c| c.build()).collect();
    let options = ProofOptions::new(32, 8, 0, FieldExtension::None, 4, 31, BatchingMethod::Linear, BatchingMethod::Linear);
    let ctx = AirContext::<BaseElement>::new(TraceInfo::new(w, n), vec![TransitionConstraintDegree::new(1)], assertions.len(), options);
    let coeffs: Vec<BaseElement> = (0..assertions.len()).map(|i| BaseElement::new(i as u64 + 1)).collect();
    out.case(&req, &expect, || {
        match catch_unwind(AssertUnwindSafe(|| BoundaryConstraints::<BaseElement>::new(&ctx, assertions, vec![], &coeffs))) {
            Ok(bc) => format!("ok {}", bc.main_constraints().iter()
                .map(|g| g.constraints().iter().map(|c| c.column().to_string()).collect::<Vec<_>>().join(","))
                .collect::<Vec<_>>().join(";")),
            Err(e) => panic_kind(e),
        }
    });
}

pub fn run(rng: &mut Rng, out: &mut Out, n: usize) {
    // largest trace length of the exhaustive pair enumeration: power of two <= n, in [4, 128]
    let mut m = 4;
    while m * 2 <= n.min(128) { m *= 2; }
    let m2 = 2 * m;

    // ---- constructors: every small argument combination, valid or not ---------------------------
    let mut strides: Vec<usize> = (0..=17).collect();
    let mut p = 32;
    while p <= m2 { strides.extend([p - 1, p, p + 1]); p *= 2; }
    let lens: Vec<usize> = (0..=9usize).chain([15, 16, 17, 31, 32, 33, 64, 128].into_iter().filter(|l| *l <= m2)).collect();
    for c in 0..2 {
        for s in (0..=m2 + 1).chain([usize::MAX]) {
            let call = Call::Single(c, s, 1);
            out.count("new:single");
            out.case(&format!("c21 new {}", call.token()), &call.expect_new(), || match catch_unwind(AssertUnwindSafe(|| call.build())) {
                Ok(a) => format!("ok {} {} {} {}", a.column(), a.first_step(), a.stride(), a.values().len()),
                Err(e) => panic_kind(e),
            });
        }
        for &st in &strides {
            let firsts: Vec<usize> = if st <= 16 { (0..=st + 1).collect() } else { vec![0, 1, st / 2, st - 1, st, st + 1] };
            for &f in &firsts {
                let mut calls = vec![Call::Periodic(c, f, st, 2)];
                for &l in &lens { calls.push(Call::Sequence(c, f, st, seq_vals(l))); }
                for call in calls {
                    let exp = call.expect_new();
                    out.count(if exp.starts_with("ok") { "new:accepted" } else { "new:rejected" });
                    out.case(&format!("c21 new {}", call.token()), &exp, || match catch_unwind(AssertUnwindSafe(|| call.build())) {
                        Ok(a) => format!("ok {} {} {} {}", a.column(), a.first_step(), a.stride(), a.values().len()),
                        Err(e) => panic_kind(e),
                    });
                }
            }
        }
    }

    // ---- validation / step sets: every valid assertion up to 2m x a set of trace lengths ----------
    let uni = universe(m2);
    let ts = lengths(m2);
    for call in &uni {
        let a = call.build();
        for &t in &ts {
            let ex = call.explicit(t);
            out.count(if ex.is_some() { "length:fits" } else if is_pow2(t) { "length:rejected" } else { "length:notpow2" });
            out.case(&format!("c21 vlen {} {t}", call.token()), if ex.is_some() { "~^ok$" } else if is_pow2(t) { "~^err (tooshort|notexact) " } else { "~^err notpow2 " }, || match a.validate_trace_length(t) {
                Ok(()) => "ok".to_string(),
                Err(e) => show_err(&e),
            });
            let exp = match &ex {
                Some(l) => format!("{} {}", l.len(), l.iter().map(|(s, v)| format!("{s}:{v}")).collect::<Vec<_>>().join(",")),
                None => "abort".to_string(),
            };
            out.case(&format!("c21 steps {} {t}", call.token()), &exp, || {
                let k = catch_unwind(AssertUnwindSafe(|| a.get_num_steps(t)));
                let l = catch_unwind(AssertUnwindSafe(|| { let mut l = Vec::new(); a.apply(t, |s, v| l.push((s, v.as_int()))); l }));
                match (k, l) {
                    (Ok(k), Ok(l)) => format!("{k} {}", l.iter().map(|(s, v)| format!("{s}:{v}")).collect::<Vec<_>>().join(",")),
                    (Err(_), Err(_)) => "abort".to_string(),
                    _ => "inconsistent".to_string(),
                }
            });
        }
    }
    for c in 0..4 {
        for w in 0..5 {
            for call in [Call::Single(c, 1, 1), Call::Periodic(c, 1, 4, 1), Call::Sequence(c, 1, 2, seq_vals(4))] {
                let a = call.build();
                let exp = if c < w { "ok".to_string() } else { format!("err width {c} {w}") };
                out.case(&format!("c21 vwidth {} {w}", call.token()), &exp, || match a.validate_trace_width(w) {
                    Ok(()) => "ok".to_string(),
                    Err(e) => show_err(&e),
                });
            }
        }
    }

    // ---- overlap detection: ALL pairs of assertions valid for the same trace length ---------------
    let mut t = 1;
    while t <= m {
        let calls = valid_for(t, 2, t <= 16);
        let built: Vec<A> = calls.iter().map(|c| c.build()).collect();
        let tokens: Vec<String> = calls.iter().map(|c| c.token()).collect();
        let masks: Vec<u128> = calls.iter().map(|c| c.mask(t).expect("valid for t")).collect();
        for i in 0..calls.len() {
            // every enumerated assertion really is valid for t
            assert!(built[i].validate_trace_length(t).is_ok());
            for j in i..calls.len() {
                // ORACLE: same column and the explicit step sets intersect
                let share = calls[i].column() == calls[j].column() && masks[i] & masks[j] != 0;
                out.count(if share { "pair:common-cell" } else if calls[i].column() == calls[j].column() { "pair:disjoint" } else { "pair:other-column" });
                out.case(&format!("c21 pair {t} {} {}", tokens[i], tokens[j]), &format!("{share} {share}"), || {
                    format!("{} {}", built[i].overlaps_with(&built[j]), built[j].overlaps_with(&built[i]))
                });
            }
        }
        t *= 2;
    }

    // ---- prepare_assertions (through BoundaryConstraints::new) -------------------------------------
    // all ordered pairs for an 8-row, 2-column trace
    let v8 = valid_for(8, 2, true);
    for a in &v8 { for b in &v8 { prep_case(out, 2, 8, &[a.clone(), b.clone()]); } }
    // random lists, biased to many small-stride assertions (frequent overlaps) and a few invalid ones
    for _ in 0..40 * m {
        let t = 8usize << rng.below(((m.max(8) / 8).trailing_zeros() + 1) as u64);
        let w = rng.range(1, 3) as usize;
        let pool = valid_for(t, w, true);
        let k = rng.range(1, 6) as usize;
        let mut calls: Vec<Call> = Vec::new();
        for _ in 0..k {
            let c = match rng.below(16) {
                0 => Call::Single(rng.below(w as u64 + 1) as usize, rng.below(2 * t as u64) as usize, 1),
                1 => { let st = 1usize << rng.range(1, t.trailing_zeros() as u64 + 1); Call::Periodic(0, rng.below(st as u64) as usize, st, 1) },
                2 => { let st = 1usize << rng.range(1, 3); Call::Sequence(0, rng.below(st as u64) as usize, st, seq_vals(1 << rng.range(1, 4))) },
                3..=8 => { let st = (t >> rng.below(3)).max(2); Call::Periodic(rng.below(w as u64) as usize, rng.below(st as u64) as usize, st, 1) },
                _ => rng.pick(&pool).clone(),
            };
            calls.push(c);
        }
        prep_case(out, w, t, &calls);
    }
}
