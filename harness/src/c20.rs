//! C20: the public coin (`DefaultRandomCoin`).  Request lines: see lean/Wf/Drv/RandomCoin.lean.
//!
//! * `toy0|toy1|toy2`: `DefaultRandomCoin<Toy<B, MODE>>` – the REAL coin code over a test hasher that
//!   the Lean driver re-implements byte for byte, so model and implementation are compared on the
//!   complete outputs of whole histories (draws incl. rejected candidates, integer draws, zero
//!   counts, panics of the two assertions, the 1000-iteration limits).
//! * `blake3_256`: the same histories on the real hasher; the answer is the shape of the outputs plus
//!   verdicts: `det` two independent instances agree on every output, `range` integer draws are below
//!   the domain size and (1 <= n <= 1000) exactly n, `lz` check_leading_zeros equals the trailing-zero
//!   count of the first 8 bytes of merge_with_int(seed, value) with the seed tracked independently
//!   here, `sens` flipping one bit of the last reseed digest changes the outputs after it.
//! The oracle is the property's expectation computed here (exactly n values below the domain size,
//! panic for the documented preconditions, error above 1000).
use std::marker::PhantomData;
use std::panic::{catch_unwind, AssertUnwindSafe};

use winter_crypto::{hashers::Blake3_256, DefaultRandomCoin, Digest, ElementHasher, Hasher, RandomCoin};
use winter_math::{
    fields::{f128, f62, f64, CubeExtension, QuadExtension},
    FieldElement, StarkField,
};
use winter_utils::Deserializable;

use crate::c10::{Fld, P128, P62, P64};
use crate::out::Out;
use crate::rng::{hex, Rng};

// ---------------------------------------------------------------------------------------------
// the toy hasher (identical to `toy` in lean/Wf/Drv/RandomCoin.lean)
// ---------------------------------------------------------------------------------------------
fn toy_absorb(st: &mut [u64; 4], x: u64) {
    let [a, b, c, d] = *st;
    let a = a.wrapping_mul(6364136223846793005).wrapping_add(x).wrapping_add(1);
    let b = b.wrapping_add(a).wrapping_mul(1442695040888963407).wrapping_add(a >> 29);
    let c = c.wrapping_add(b).wrapping_mul(3935559000370003845).wrapping_add(b >> 31);
    let d = d.wrapping_add(c).wrapping_mul(2685821657736338717).wrapping_add(c >> 30);
    *st = [b, c, d, a];
}

pub fn toy(bytes: &[u8]) -> [u8; 32] {
    let mut st = [0x243F6A8885A308D3u64, 0x13198A2E03707344, 0xA4093822299F31D0, 0x082EFA98EC4E6C89];
    for b in bytes { toy_absorb(&mut st, *b as u64); }
    for b in (bytes.len() as u64).to_le_bytes() { toy_absorb(&mut st, b as u64); }
    for _ in 0..4 { toy_absorb(&mut st, 0); }
    let mut r = [0u8; 32];
    for i in 0..4 { r[8 * i..8 * i + 8].copy_from_slice(&st[i].to_le_bytes()); }
    r
}

pub struct Toy<B: StarkField, const MODE: u8>(PhantomData<B>);
type D32<B> = <Blake3_256<B> as Hasher>::Digest;

fn d32<B: StarkField>(b: [u8; 32]) -> D32<B> { D32::<B>::read_from_bytes(&b).unwrap() }

impl<B: StarkField, const MODE: u8> Hasher for Toy<B, MODE> {
    type Digest = D32<B>;
    const COLLISION_RESISTANCE: u32 = 0;
    fn hash(bytes: &[u8]) -> Self::Digest {
        let mut v = vec![0u8];
        v.extend_from_slice(bytes);
        d32::<B>(toy(&v))
    }
    fn merge(values: &[Self::Digest; 2]) -> Self::Digest {
        let mut v = vec![1u8];
        v.extend_from_slice(&values[0].as_bytes());
        v.extend_from_slice(&values[1].as_bytes());
        d32::<B>(toy(&v))
    }
    fn merge_many(values: &[Self::Digest]) -> Self::Digest {
        let mut v = vec![2u8];
        for d in values { v.extend_from_slice(&d.as_bytes()); }
        d32::<B>(toy(&v))
    }
    fn merge_with_int(seed: Self::Digest, value: u64) -> Self::Digest {
        if MODE == 1 { return d32::<B>([0xff; 32]); }
        if MODE == 2 { return d32::<B>([0; 32]); }
        let mut v = vec![3u8];
        v.extend_from_slice(&seed.as_bytes());
        v.extend_from_slice(&value.to_le_bytes());
        d32::<B>(toy(&v))
    }
}

impl<B: StarkField, const MODE: u8> ElementHasher for Toy<B, MODE> {
    type BaseField = B;
    fn hash_elements<E: FieldElement<BaseField = B>>(elements: &[E]) -> Self::Digest {
        let mut v = vec![4u8];
        for e in elements { v.extend_from_slice(&e.to_bytes()); }
        d32::<B>(toy(&v))
    }
}

// ---------------------------------------------------------------------------------------------
// histories
// ---------------------------------------------------------------------------------------------
#[derive(Clone)]
pub enum Op { Reseed([u8; 32]), Draw(usize), Ints(usize, usize, u64), Lz(u64) }

impl Op {
    fn show(&self) -> String {
        match self {
            Op::Reseed(d) => format!("r:{}", hex(d)),
            Op::Draw(k) => format!("d:{k}"),
            Op::Ints(n, d, x) => format!("i:{n}:{d}:{x}"),
            Op::Lz(v) => format!("z:{v}"),
        }
    }
}

fn canon<E: Fld>(e: &E) -> String { e.to_canon().iter().map(|x| x.to_string()).collect::<Vec<_>>().join(":") }

/// one operation on the real coin; `cube` = the base field has a cubic extension
fn step<H, B, Q, C>(coin: &mut DefaultRandomCoin<H>, op: &Op, cube: bool) -> String
where
    B: StarkField + Fld,
    H: ElementHasher<BaseField = B>,
    Q: Fld + FieldElement<BaseField = B>,
    C: Fld + FieldElement<BaseField = B>,
{
    match op {
        Op::Reseed(d) => { coin.reseed(H::Digest::read_from_bytes(d).unwrap()); "r".into() },
        Op::Draw(k) => {
            let r = match k {
                1 => coin.draw::<B>().map(|e| canon(&e)),
                2 => coin.draw::<Q>().map(|e| canon(&e)),
                _ => { assert!(cube); coin.draw::<C>().map(|e| canon(&e)) },
            };
            match r { Ok(s) => format!("e={s}"), Err(_) => "e=err".into() }
        },
        Op::Ints(n, d, x) => {
            match catch_unwind(AssertUnwindSafe(|| coin.draw_integers(*n, *d, *x))) {
                Err(_) => "i=abort".into(),
                Ok(Err(winter_crypto::RandomCoinError::FailedToDrawIntegers(a, b, _))) => format!("i=err:{a}:{b}"),
                Ok(Err(_)) => "i=err".into(),
                Ok(Ok(vs)) => format!("i={}", if vs.is_empty() { "-".into() } else { vs.iter().map(|v| v.to_string()).collect::<Vec<_>>().join(",") }),
            }
        },
        Op::Lz(v) => format!("z={}", coin.check_leading_zeros(*v)),
    }
}

fn run_hist<H, B, Q, C>(seed: &[u128], ops: &[Op], cube: bool) -> Vec<String>
where
    B: StarkField + Fld,
    H: ElementHasher<BaseField = B>,
    Q: Fld + FieldElement<BaseField = B>,
    C: Fld + FieldElement<BaseField = B>,
{
    let s: Vec<B> = seed.iter().map(|v| B::from_canon(&[*v])).collect();
    let mut coin = DefaultRandomCoin::<H>::new(&s);
    ops.iter().map(|op| step::<H, B, Q, C>(&mut coin, op, cube)).collect()
}

/// the property's expectation for one operation, as a regular expression on its output token
fn expect(op: &Op) -> String {
    match op {
        Op::Reseed(_) => "r".into(),
        Op::Draw(_) => "e=(err|[0-9:]+)".into(),
        Op::Ints(n, d, _) => {
            if !d.is_power_of_two() || n >= d { "i=abort".into() }
            else if *n == 0 { "i=-".into() }
            else if *n > 1000 { format!("i=err:{n}:1000") }
            else { format!("i=[0-9]+(,[0-9]+){{{}}}", n - 1) }
        },
        Op::Lz(_) => "z=[0-9]+".into(),
    }
}

fn oracle(ops: &[Op]) -> String {
    format!("~^{}$", ops.iter().map(expect).collect::<Vec<_>>().join(" "))
}

fn ints_in_range(tok: &str, d: usize) -> bool {
    match tok.strip_prefix("i=") {
        Some(rest) if rest.starts_with(|c: char| c.is_ascii_digit()) => rest.split(',').all(|v| v.parse::<usize>().map(|v| v < d).unwrap_or(false)),
        _ => true,
    }
}

fn gen_ops(rng: &mut Rng, cube: bool, len: usize) -> Vec<Op> {
    let mut ops = Vec::new();
    for _ in 0..len {
        ops.push(match rng.below(10) {
            0 | 1 => { let mut d = [0u8; 32]; match rng.below(4) { 0 => {}, 1 => d = [0xff; 32], _ => d.copy_from_slice(&rng.bytes(32)) }; Op::Reseed(d) },
            2..=4 => Op::Draw(1 + rng.below(if cube { 3 } else { 2 }) as usize),
            5..=7 => {
                let k = match rng.below(6) { 0 => 0, 1 => 1, 2 => 10, 3 => 11, _ => rng.below(13) as u32 };
                let d = 1usize << k;
                let n = match rng.below(8) { 0 => 1, 1 => d.saturating_sub(1).max(1), 2 => (d / 2).max(1), _ => rng.below(d as u64).max(1) as usize };
                let nonce = match rng.below(3) { 0 => 0, 1 => u64::MAX, _ => rng.next() };
                Op::Ints(n, d, nonce)
            },
            _ => Op::Lz(match rng.below(3) { 0 => 0, 1 => rng.below(16), _ => rng.next() }),
        });
    }
    ops
}

/// special histories: every precondition / limit of draw_integers
fn special_ops() -> Vec<Vec<Op>> {
    let z = Op::Lz(0);
    vec![
        // domain not a power of two; n >= domain; state untouched afterwards (observed by the following ops)
        vec![Op::Ints(1, 3, 0), z.clone(), Op::Ints(2, 0, 0), Op::Ints(4, 4, 1), Op::Ints(5, 4, 1), Op::Draw(1), Op::Ints(1, 6, 9), Op::Ints(1, 2, 9), Op::Draw(1)],
        // domain 1: no n is allowed except 0 (separate case below)
        vec![Op::Ints(1, 1, 0), Op::Draw(1)],
        // the iteration limit: exactly 1000 is fine, 1001 is an error (and still reseeds)
        vec![Op::Ints(1000, 1024, 5), Op::Draw(1), Op::Ints(999, 1024, 5), Op::Ints(1001, 2048, 5), Op::Draw(1), Op::Ints(1500, 2048, 1), z.clone()],
        // the same nonce twice, different nonces, reseed in between
        vec![Op::Ints(20, 64, 7), Op::Ints(20, 64, 7), Op::Ints(20, 64, 8), Op::Reseed([7; 32]), Op::Ints(20, 64, 7), Op::Draw(2), Op::Draw(2)],
        // large domain (mask over all 64 bits is impossible for usize domain 2^63)
        vec![Op::Ints(3, 1 << 63, 1), Op::Ints(3, 1 << 32, 1), Op::Ints(1, 2, 1), z.clone()],
        // draws only: counter runs on, reseed resets it
        vec![Op::Draw(1), Op::Draw(1), Op::Draw(2), Op::Reseed([0; 32]), Op::Draw(1), Op::Reseed([0; 32]), Op::Draw(1), z],
    ]
}

fn show_req(hn: &str, fld: &str, seed: &[u128], ops: &[Op]) -> String {
    let s = if seed.is_empty() { "-".to_string() } else { seed.iter().map(|v| v.to_string()).collect::<Vec<_>>().join(",") };
    format!("c20 {hn} {fld} {s} {}", ops.iter().map(|o| o.show()).collect::<Vec<_>>().join(" "))
}

/// blake3: shape + verdicts
fn real_case<B, Q, C>(out: &mut Out, fld: &str, seed: &[u128], ops: &[Op], cube: bool)
where
    B: StarkField + Fld,
    Q: Fld + FieldElement<BaseField = B>,
    C: Fld + FieldElement<BaseField = B>,
{
    type H<B> = Blake3_256<B>;
    let shape_oracle: Vec<String> = ops.iter().map(|op| match op {
        Op::Reseed(_) => "r".into(),
        Op::Draw(_) => "e".into(),
        Op::Ints(n, d, _) => if !d.is_power_of_two() || n >= d { "i=abort".into() } else if *n > 1000 { format!("i=err:{n}:1000") } else { format!("i={n}") },
        Op::Lz(_) => "z".into(),
    }).collect();
    let oracle = format!("{} det=t range=t lz=t sens=t", shape_oracle.join(" "));
    out.case(&show_req("blake3_256", fld, seed, ops), &oracle, || {
        let a = run_hist::<H<B>, B, Q, C>(seed, ops, cube);
        let b = run_hist::<H<B>, B, Q, C>(seed, ops, cube);
        let det = a == b;
        let mut range = true;
        let mut lz = true;
        // the seed, tracked independently from the documentation
        let s: Vec<B> = seed.iter().map(|v| B::from_canon(&[*v])).collect();
        let mut sd = H::<B>::hash_elements(&s);
        let mut last_reseed = None;
        for (i, op) in ops.iter().enumerate() {
            match op {
                Op::Reseed(d) => { sd = H::<B>::merge(&[sd, D32::<B>::read_from_bytes(d).unwrap()]); last_reseed = Some(i); },
                Op::Ints(n, d, x) => {
                    range &= ints_in_range(&a[i], *d);
                    if d.is_power_of_two() && n < d { sd = H::<B>::merge_with_int(sd, *x); }
                },
                Op::Lz(v) => {
                    let bytes = H::<B>::merge_with_int(sd, *v).as_bytes();
                    let want = u64::from_le_bytes(bytes[..8].try_into().unwrap()).trailing_zeros();
                    lz &= a[i] == format!("z={want}");
                },
                Op::Draw(_) => {},
            }
        }
        // sensitivity: flip one bit of the last reseed digest
        let mut sens = true;
        if let Some(i) = last_reseed {
            if ops[i + 1..].iter().any(|o| !matches!(o, Op::Reseed(_))) {
                let mut ops2 = ops.to_vec();
                if let Op::Reseed(d) = &mut ops2[i] { d[5] ^= 0x10; }
                let c = run_hist::<H<B>, B, Q, C>(seed, &ops2, cube);
                sens = c[i + 1..] != a[i + 1..] && c[..i] == a[..i];
            }
        }
        let shape: Vec<String> = a.iter().map(|t| {
            if t.starts_with("e=") { if t == "e=err" { t.clone() } else { "e".into() } }
            else if t.starts_with("z=") { "z".into() }
            else if let Some(rest) = t.strip_prefix("i=") {
                if rest == "-" { "i=0".into() } else if rest.starts_with(|c: char| c.is_ascii_digit()) { format!("i={}", rest.split(',').count()) } else { t.clone() }
            } else { t.clone() }
        }).collect();
        let f = |b: bool| if b { "t" } else { "f" };
        format!("{} det={} range={} lz={} sens={}", shape.join(" "), f(det), f(range), f(lz), f(sens))
    });
}

fn toy_case<B, Q, C, const MODE: u8>(out: &mut Out, fld: &str, seed: &[u128], ops: &[Op], cube: bool)
where
    B: StarkField + Fld,
    Q: Fld + FieldElement<BaseField = B>,
    C: Fld + FieldElement<BaseField = B>,
{
    let hn = format!("toy{MODE}");
    out.case(&show_req(&hn, fld, seed, ops), &oracle(ops), || run_hist::<Toy<B, MODE>, B, Q, C>(seed, ops, cube).join(" "));
}

fn field_cases<B, Q, C>(rng: &mut Rng, out: &mut Out, n: usize, fld: &str, p: u128, cube: bool)
where
    B: StarkField + Fld,
    Q: Fld + FieldElement<BaseField = B>,
    C: Fld + FieldElement<BaseField = B>,
{
    let seeds: Vec<Vec<u128>> = vec![vec![], vec![0], vec![1, 2, 3, 4], vec![p - 1, 0, p - 1]];
    for (i, ops) in special_ops().into_iter().enumerate() {
        let seed = &seeds[i % seeds.len()];
        out.count("special");
        toy_case::<B, Q, C, 0>(out, fld, seed, &ops, cube);
        toy_case::<B, Q, C, 1>(out, fld, seed, &ops, cube);
        toy_case::<B, Q, C, 2>(out, fld, seed, &ops, cube);
        real_case::<B, Q, C>(out, fld, seed, &ops, cube);
    }
    // num_values = 0: the documentation allows it (0 < domain_size); expectation: an empty vector and
    // no call to the PRNG (was defect D5: 1000 values, repaired by /repo commit 9df60db)
    out.count("ints:n=0");
    toy_case::<B, Q, C, 0>(out, fld, &seeds[2], &[Op::Ints(0, 8, 3), Op::Draw(1)], cube);
    real_case::<B, Q, C>(out, fld, &seeds[2], &[Op::Ints(0, 1, 0), Op::Draw(1)], cube);
    for _ in 0..n {
        let seed: Vec<u128> = (0..rng.below(6)).map(|_| match rng.below(4) { 0 => 0, 1 => p - 1, _ => rng.next128() % p }).collect();
        let len = 1 + rng.below(12) as usize;
        let mut ops = gen_ops(rng, cube, len);
        ops.push(Op::Draw(1));
        ops.push(Op::Lz(rng.below(4)));
        out.count("history");
        for op in &ops { out.count(match op { Op::Reseed(_) => "op:reseed", Op::Draw(_) => "op:draw", Op::Ints(..) => "op:ints", Op::Lz(_) => "op:lz" }); }
        toy_case::<B, Q, C, 0>(out, fld, &seed, &ops, cube);
        real_case::<B, Q, C>(out, fld, &seed, &ops, cube);
        if rng.chance(1, 6) {
            toy_case::<B, Q, C, 1>(out, fld, &seed, &ops, cube);
            toy_case::<B, Q, C, 2>(out, fld, &seed, &ops, cube);
        }
    }
}

pub fn run(rng: &mut Rng, out: &mut Out, n: usize) {
    field_cases::<f64::BaseElement, QuadExtension<f64::BaseElement>, CubeExtension<f64::BaseElement>>(rng, out, n, "f64", P64, true);
    field_cases::<f62::BaseElement, QuadExtension<f62::BaseElement>, CubeExtension<f62::BaseElement>>(rng, out, n, "f62", P62, true);
    field_cases::<f128::BaseElement, QuadExtension<f128::BaseElement>, QuadExtension<f128::BaseElement>>(rng, out, n, "f128", P128, false);
}
