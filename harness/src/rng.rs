//! Single seeded PRNG from which every random choice of the harness is derived (splitmix64).
pub struct Rng(pub u64);

impl Rng {
    pub fn new(seed: u64) -> Self {
        Rng(seed.wrapping_mul(0x9E3779B97F4A7C15) ^ 0xD1B54A32D192ED03)
    }
    pub fn next(&mut self) -> u64 {
        self.0 = self.0.wrapping_add(0x9E3779B97F4A7C15);
        let mut z = self.0;
        z = (z ^ (z >> 30)).wrapping_mul(0xBF58476D1CE4E5B9);
        z = (z ^ (z >> 27)).wrapping_mul(0x94D049BB133111EB);
        z ^ (z >> 31)
    }
    pub fn next128(&mut self) -> u128 {
        ((self.next() as u128) << 64) | self.next() as u128
    }
    /// uniform in [0, n)
    pub fn below(&mut self, n: u64) -> u64 {
        if n == 0 { 0 } else { self.next() % n }
    }
    pub fn range(&mut self, lo: u64, hi_incl: u64) -> u64 {
        lo + self.below(hi_incl - lo + 1)
    }
    pub fn chance(&mut self, num: u64, den: u64) -> bool {
        self.below(den) < num
    }
    pub fn pick<'a, T>(&mut self, xs: &'a [T]) -> &'a T {
        &xs[self.below(xs.len() as u64) as usize]
    }
    pub fn bytes(&mut self, n: usize) -> Vec<u8> {
        (0..n).map(|_| self.next() as u8).collect()
    }
    /// an integer < 2^bits biased towards encoding/representation boundaries
    pub fn biased(&mut self, bits: u32) -> u128 {
        let max: u128 = if bits >= 128 { u128::MAX } else { (1u128 << bits) - 1 };
        let v = match self.below(8) {
            0 => self.below(4) as u128,
            1 => max - self.below(3) as u128,
            2 | 3 => {
                // around a power of two (all vint64 / limb boundaries are of this form)
                let k = self.below(bits as u64 + 1) as u32;
                let base: u128 = if k >= 128 { u128::MAX } else { 1u128 << k };
                let d = self.below(5) as i64 - 2;
                if d < 0 { base.wrapping_sub((-d) as u128) } else { base.wrapping_add(d as u128) }
            },
            4 => {
                // random bit length
                let k = self.below(bits as u64 + 1) as u32;
                if k == 0 { 0 } else { self.next128() >> (128 - k.min(128)) }
            },
            _ => self.next128(),
        };
        v & max
    }
}

pub fn hex(bs: &[u8]) -> String {
    if bs.is_empty() {
        return "-".to_string();
    }
    let mut s = String::with_capacity(bs.len() * 2);
    for b in bs {
        s.push_str(&format!("{b:02x}"));
    }
    s
}
