//! C27: `ReadAdapter` over an arbitrarily chunked `Read` must behave like `SliceReader`.
use std::io::Read;

use winter_utils::{ByteReader, DeserializationError, ReadAdapter, SliceReader};

use crate::out::Out;
use crate::rng::{hex, Rng};

/// a `Read` that returns the content in the scheduled chunks (one chunk, or as much of it as fits
/// the caller's buffer, per `read` call); after the schedule is exhausted it returns 0 forever.
pub struct Chunked {
    data: Vec<u8>,
    pos: usize,
    chunks: Vec<usize>,
    ci: usize,
}

impl Chunked {
    pub fn new(data: Vec<u8>, chunks: Vec<usize>) -> Self {
        Chunked { data, pos: 0, chunks, ci: 0 }
    }
}

impl Read for Chunked {
    fn read(&mut self, buf: &mut [u8]) -> std::io::Result<usize> {
        while self.ci < self.chunks.len() && self.chunks[self.ci] == 0 {
            self.ci += 1;
        }
        if self.ci >= self.chunks.len() || buf.is_empty() {
            return Ok(0);
        }
        let n = self.chunks[self.ci].min(buf.len()).min(self.data.len() - self.pos);
        buf[..n].copy_from_slice(&self.data[self.pos..self.pos + n]);
        self.pos += n;
        self.chunks[self.ci] -= n;
        Ok(n)
    }
}

fn e(e: DeserializationError) -> String {
    match e {
        DeserializationError::UnexpectedEOF => "eof".into(),
        DeserializationError::InvalidValue(_) => "invalid".into(),
        _ => "other".into(),
    }
}

macro_rules! arr {
    ($r:expr, $n:expr, [$($k:literal),*]) => {
        match $n {
            $($k => $r.read_array::<$k>().map(|a| format!("x{}", hex(&a))).unwrap_or_else(e),)*
            _ => "unsupported".to_string(),
        }
    };
}

pub const ARRAY_SIZES: [usize; 16] = [0, 1, 2, 3, 4, 5, 7, 8, 9, 16, 17, 32, 33, 64, 255, 300];

fn run_op<R: ByteReader>(r: &mut R, op: &str) -> String {
    let (k, arg) = op.split_at(1);
    let n: usize = arg.parse().unwrap_or(0);
    match k {
        "p" => r.peek_u8().map(|b| format!("b{b}")).unwrap_or_else(e),
        "b" => r.read_u8().map(|b| format!("b{b}")).unwrap_or_else(e),
        "h" => if r.has_more_bytes() { "t".into() } else { "f".into() },
        "B" => r.read_bool().map(|b| if b { "t".to_string() } else { "f".to_string() }).unwrap_or_else(e),
        "z" => r.read_usize().map(|v| format!("n{v}")).unwrap_or_else(e),
        "s" => r.read_slice(n).map(|s| format!("x{}", hex(s))).unwrap_or_else(e),
        "a" => arr!(r, n, [0, 1, 2, 3, 4, 5, 7, 8, 9, 16, 17, 32, 33, 64, 255, 300]),
        "e" => match r.check_eor(n) { Ok(()) => "t".into(), Err(_) => "f".into() },
        "u" => match n {
            1 => r.read_u8().map(|v| format!("n{v}")).unwrap_or_else(e),
            2 => r.read_u16().map(|v| format!("n{v}")).unwrap_or_else(e),
            4 => r.read_u32().map(|v| format!("n{v}")).unwrap_or_else(e),
            8 => r.read_u64().map(|v| format!("n{v}")).unwrap_or_else(e),
            16 => r.read_u128().map(|v| format!("n{v}")).unwrap_or_else(e),
            _ => "unsupported".into(),
        },
        _ => "unsupported".into(),
    }
}

fn regex_escape(s: &str) -> String {
    s.chars().map(|c| if "\\.^$|?*+()[]{}".contains(c) { format!("\\{c}") } else { c.to_string() }).collect()
}

pub fn one_case(out: &mut Out, data: &[u8], chunks: &[usize], ops: &[String]) {
    let delivered: usize = chunks.iter().sum::<usize>().min(data.len());
    let content = &data[..delivered];
    let chunk_s = if chunks.is_empty() { "-".to_string() } else { chunks.iter().map(|c| c.to_string()).collect::<Vec<_>>().join(",") };
    let ops_s = ops.join(";");
    // the property's oracle: the in-memory reader over the delivered bytes
    let mut sr = SliceReader::new(content);
    let mut parts = Vec::new();
    let mut plain = Vec::new();
    for op in ops {
        let o = run_op(&mut sr, op);
        plain.push(o.clone());
        if op.starts_with('e') && o == "f" {
            parts.push("[tf]".to_string()); // the adapter may be optimistic, never pessimistic
        } else {
            parts.push(regex_escape(&o));
        }
    }
    let oracle = format!("~^{}$", parts.join("\\|"));
    out.case(&format!("c27 adapter {} {} {}", hex(content), chunk_s, ops_s), &oracle, || {
        let mut src = Chunked::new(content.to_vec(), chunks.to_vec());
        let mut ad = ReadAdapter::new(&mut src);
        ops.iter().map(|op| run_op(&mut ad, op)).collect::<Vec<_>>().join("|")
    });
    // the slice model against the real SliceReader
    let plain_s = plain.join("|");
    out.case(&format!("c27 slice {} {}", hex(content), ops_s), "-", || plain_s.clone());
}

fn gen_op(rng: &mut Rng) -> String {
    match rng.below(16) {
        0 => "p".into(),
        1 | 2 => "b".into(),
        3 => "h".into(),
        4 => "B".into(),
        5 => "z".into(),
        6 | 7 | 8 => format!("s{}", *rng.pick(&[0u64, 1, 1, 2, 3, 4, 7, 8, 9, 15, 16, 17, 31, 100, 247, 255, 256, 257, 300, 496, 600])),
        9 | 10 | 11 => format!("a{}", *rng.pick(&ARRAY_SIZES)),
        12 => format!("e{}", *rng.pick(&[0u64, 1, 2, 8, 9, 100, 256, 257, 1000])),
        _ => format!("u{}", *rng.pick(&[1u64, 2, 4, 8, 16])),
    }
}

fn gen_chunks(rng: &mut Rng, len: usize) -> Vec<usize> {
    let mut chunks = Vec::new();
    let mut left = len;
    let style = rng.below(6);
    while left > 0 {
        let c = match style {
            0 => left,                                   // one read returns everything
            1 => 1,                                      // byte-at-a-time
            2 => *rng.pick(&[1usize, 2, 3, 7, 8]),
            3 => *rng.pick(&[255usize, 256, 257, 1, 8]),
            _ => *rng.pick(&[1usize, 2, 3, 5, 7, 8, 9, 16, 100, 255, 256, 257, 512]),
        }.min(left).max(1);
        chunks.push(c);
        left -= c;
    }
    if rng.chance(1, 10) && !chunks.is_empty() { chunks.pop(); } // stream ends early
    chunks
}

pub fn run(rng: &mut Rng, out: &mut Out, n: usize) {
    // regression corpus: minimised histories of the defects fixed in /repo (see known_findings.txt)
    let data: Vec<u8> = (0..=255u8).cycle().take(600).collect();
    let corpus: Vec<(usize, Vec<usize>, &str)> = vec![
        (512, vec![512], "b;u8;u8;u8;u8;u8;u8;u8;u8;u8;u8;u8;u8;u8;u8;u8;u8;u8;u8;u8;u8;u8;u8;u8;u8;u8;u8;u8;u8;u8;u8;u8;u8;u8"),
        (40, vec![5, 10, 25], "s1;a4;s2;s2"),
        (40, vec![5, 1, 34], "s1;u8;b"),
        (40, vec![2, 3, 3, 32], "s1;s9;b"),
        (40, vec![1, 1, 1, 1, 1, 1, 1, 1, 1, 31], "u8;b"),
        (40, vec![3, 37], "u4;u4"),
    ];
    for (len, chunks, ops) in corpus {
        let ops: Vec<String> = ops.split(';').map(|s| s.to_string()).collect();
        out.count("corpus");
        one_case(out, &data[..len], &chunks, &ops);
    }
    for _ in 0..n {
        let len = match rng.below(8) {
            0 => rng.below(13),
            1 => rng.range(250, 262),
            2 => rng.range(505, 520),
            3 => rng.below(40),
            _ => rng.below(600),
        } as usize;
        let mut data = rng.bytes(len);
        // make vint64 / bool reads meaningful: sprinkle small and low-bit-patterned bytes
        for b in data.iter_mut() {
            if rng.chance(1, 3) { *b = *rng.pick(&[0u8, 1, 2, 3, 4, 8, 16, 32, 64, 128, 0xff]); }
        }
        let chunks = gen_chunks(rng, len);
        let nops = 1 + rng.below(14) as usize;
        let ops: Vec<String> = (0..nops).map(|_| gen_op(rng)).collect();
        out.count(&format!("len:{}", match len { 0 => "0", 1..=12 => "1-12", 13..=249 => "13-249", 250..=262 => "250-262", 263..=504 => "263-504", _ => "505+" }));
        out.count(&format!("chunks:{}", match chunks.len() { 0 => "0", 1 => "1", 2..=4 => "2-4", 5..=32 => "5-32", _ => "33+" }));
        for op in &ops { out.count(&format!("op:{}", &op[..1])); }
        one_case(out, &data, &chunks, &ops);
    }
}

/// exhaustive small scope: every op list of length <= `depth` over a small alphabet, crossed with
/// every schedule of a short content into chunks of size 1..=3 (all compositions) + single chunk.
pub fn run_exhaustive(out: &mut Out, depth: usize) {
    let alphabet = ["p", "b", "s1", "s3", "a2", "a4", "e2", "h", "z"];
    let content: Vec<u8> = vec![0x04, 0x00, 0x01, 0x02, 0x03, 0x81];
    // all compositions of 6
    let mut scheds: Vec<Vec<usize>> = Vec::new();
    fn comp(left: usize, cur: &mut Vec<usize>, acc: &mut Vec<Vec<usize>>) {
        if left == 0 { acc.push(cur.clone()); return; }
        for c in 1..=left { cur.push(c); comp(left - c, cur, acc); cur.pop(); }
    }
    comp(content.len(), &mut Vec::new(), &mut scheds);
    let mut ops_lists: Vec<Vec<String>> = vec![vec![]];
    let mut frontier: Vec<Vec<String>> = vec![vec![]];
    for _ in 0..depth {
        let mut next = Vec::new();
        for l in &frontier {
            for a in alphabet { let mut m = l.clone(); m.push(a.to_string()); next.push(m); }
        }
        ops_lists.extend(next.iter().cloned());
        frontier = next;
    }
    for ops in ops_lists.iter().filter(|o| !o.is_empty()) {
        for s in &scheds {
            out.count("exhaustive");
            one_case(out, &content, s, ops);
        }
    }
}
