//! C13: polynomial helpers compute the documented results.
//! Implementation side: the real `winter_math::polynom` functions over f64, f62, f128 and their
//! extensions.  Oracle side: schoolbook polynomial arithmetic on canonical integers (naive
//! power-sum evaluation, coefficient-wise add/sub, convolution, long division on stripped
//! coefficient vectors, Lagrange's formula; every interpolation oracle is additionally checked
//! by evaluating it at the xs).
//! Request syntax: see lean/Wf/Drv/Polynom.lean.
use winter_math::{
    fields::{f128, f62, f64, CubeExtension, QuadExtension},
    polynom,
};

use crate::c10::{o_add, o_inv, o_mul, o_one, o_sub, show, Fld, Spec};
use crate::c14::{case, show_list, threads, Pool, E};
use crate::out::Out;
use crate::rng::Rng;

type P = Vec<E>;

// ---------------------------------------------------------------------------------------------
// oracle: schoolbook polynomial arithmetic
// ---------------------------------------------------------------------------------------------
fn zero(s: &Spec) -> E { vec![0u128; s.deg] }
fn is_zero(e: &E) -> bool { e.iter().all(|&x| x == 0) }
fn strip(p: &P) -> P { let mut q = p.clone(); while q.last().map_or(false, is_zero) { q.pop(); } q }
fn coef(s: &Spec, p: &P, i: usize) -> E { if i < p.len() { p[i].clone() } else { zero(s) } }

/// sum of c_i * x^i with explicitly computed powers (not Horner)
fn p_eval(s: &Spec, p: &P, x: &E) -> E {
    let mut acc = zero(s);
    let mut pw = o_one(s);
    for c in p { acc = o_add(s, &acc, &o_mul(s, c, &pw)); pw = o_mul(s, &pw, x); }
    acc
}
fn p_add(s: &Spec, a: &P, b: &P) -> P { (0..a.len().max(b.len())).map(|i| o_add(s, &coef(s, a, i), &coef(s, b, i))).collect() }
fn p_sub(s: &Spec, a: &P, b: &P) -> P { (0..a.len().max(b.len())).map(|i| o_sub(s, &coef(s, a, i), &coef(s, b, i))).collect() }
/// convolution: c_k = sum_{i+j=k} a_i b_j, length la + lb - 1 (for non-empty inputs)
fn p_mul(s: &Spec, a: &P, b: &P) -> P {
    if a.is_empty() || b.is_empty() { return vec![zero(s); (a.len() + b.len()).saturating_sub(1)]; }
    (0..a.len() + b.len() - 1).map(|k| {
        let mut acc = zero(s);
        for i in 0..a.len() { if k >= i && k - i < b.len() { acc = o_add(s, &acc, &o_mul(s, &a[i], &b[k - i])); } }
        acc
    }).collect()
}
/// long division on stripped vectors: (quotient, remainder), quotient has deg a - deg b + 1 coefficients
fn p_divmod(s: &Spec, a: &P, b: &P) -> (P, P) {
    let b = strip(b);
    assert!(!b.is_empty());
    let mut r = strip(a);
    let db = b.len() - 1;
    let lead_inv = o_inv(s, &b[db]);
    if r.len() < b.len() { return (vec![], r); }
    let mut q = vec![zero(s); r.len() - db];
    while r.len() > db {
        let k = r.len() - 1 - db;
        let t = o_mul(s, &r[r.len() - 1], &lead_inv);
        for j in 0..=db { r[k + j] = o_sub(s, &r[k + j], &o_mul(s, &t, &b[j])); }
        q[k] = t;
        assert!(is_zero(&r[r.len() - 1]));
        r.pop();
    }
    (q, strip(&r))
}
fn p_from_roots(s: &Spec, roots: &[E]) -> P {
    let mut p: P = vec![o_one(s)];
    for r in roots { p = p_mul(s, &p, &vec![o_sub(s, &zero(s), r), o_one(s)]); }
    p
}
/// Lagrange's formula, n coefficients
fn p_lagrange(s: &Spec, xs: &[E], ys: &[E]) -> P {
    let n = xs.len();
    let mut res: P = vec![zero(s); n];
    for i in 0..n {
        let mut num: P = vec![o_one(s)];
        let mut den = o_one(s);
        for j in 0..n {
            if j != i {
                num = p_mul(s, &num, &vec![o_sub(s, &zero(s), &xs[j]), o_one(s)]);
                den = o_mul(s, &den, &o_sub(s, &xs[i], &xs[j]));
            }
        }
        let f = o_mul(s, &ys[i], &o_inv(s, &den));
        for k in 0..n { res[k] = o_add(s, &res[k], &o_mul(s, &num[k], &f)); }
    }
    // the defining property, checked on the oracle itself
    for i in 0..n { assert!(p_eval(s, &res, &xs[i]) == ys[i], "oracle self-check"); }
    res
}
fn pad(s: &Spec, p: &P, len: usize) -> P { let mut q = p.clone(); while q.len() < len { q.push(zero(s)); } q }

// ---------------------------------------------------------------------------------------------
// generators
// ---------------------------------------------------------------------------------------------
/// coefficient vector of `len` elements: random / zero polynomial / leading zeros / sparse
fn gen_poly(rng: &mut Rng, pool: &Pool, len: usize) -> P {
    match rng.below(6) {
        0 => (0..len).map(|_| pool.zero()).collect(),
        1 => { let k = rng.below(len as u64 + 1) as usize; (0..len).map(|i| if i < k { pool.any(rng) } else { pool.zero() }).collect() },
        2 => (0..len).map(|_| if rng.chance(1, 2) { pool.zero() } else { pool.nonzero(rng) }).collect(),
        _ => (0..len).map(|_| pool.any(rng)).collect(),
    }
}
/// coefficient vector with exact degree `deg` and `padz` leading zeros
fn gen_poly_deg(rng: &mut Rng, pool: &Pool, deg: usize, padz: usize) -> P {
    let mut p: P = (0..deg).map(|_| pool.any(rng)).collect();
    p.push(pool.nonzero(rng));
    for _ in 0..padz { p.push(pool.zero()); }
    p
}
fn gen_distinct(rng: &mut Rng, pool: &Pool, n: usize, with_zero: bool) -> Vec<E> {
    let mut xs: Vec<E> = vec![];
    if with_zero && n > 0 { xs.push(pool.zero()); }
    while xs.len() < n {
        let e: E = if rng.chance(1, 2) { pool.nonzero(rng) } else { (0..pool.s.deg).map(|_| crate::c14::gen_coord(rng, pool.s.p)).collect() };
        if !is_zero(&e) && !xs.contains(&e) { xs.push(e); }
    }
    // the zero goes to a random position
    if with_zero && n > 1 { let k = rng.below(n as u64) as usize; xs.swap(0, k); }
    xs
}

fn to_f<F: Fld>(p: &[E]) -> Vec<F> { p.iter().map(|e| F::from_canon(e)).collect() }
fn from_f<F: Fld>(p: &[F]) -> String { show_list(&p.iter().map(|x| x.to_canon()).collect::<Vec<_>>()) }

fn run_field<F: Fld>(rng: &mut Rng, out: &mut Out, reps: usize, maxlen: usize) {
    let name = F::NAME;
    let pool = Pool::new(rng, name, 24);
    let s = pool.s;
    let t = threads();
    let xs_special = |rng: &mut Rng, pool: &Pool| -> E { match rng.below(5) { 0 => pool.zero(), 1 => pool.elems[0].clone(), 2 => pool.elems[1].clone(), _ => pool.nonzero(rng) } };

    // ---- eval / eval_many / degree_of / remove_leading_zeros / mul_by_scalar --------------------------
    for len in 0..=maxlen {
        for _ in 0..reps {
            let p = gen_poly(rng, &pool, len);
            let x = xs_special(rng, &pool);
            out.count(&format!("{name}:eval"));
            case(out, &format!("c13 {name} eval {} {}", show_list(&p), show(&x)), &show(&p_eval(&s, &p, &x)), || {
                show(&polynom::eval(&to_f::<F>(&p), F::from_canon(&x)).to_canon())
            });
            let xs: Vec<E> = (0..rng.below(5)).map(|_| xs_special(rng, &pool)).collect();
            let exp: Vec<E> = xs.iter().map(|x| p_eval(&s, &p, x)).collect();
            case(out, &format!("c13 {name} evalmany {} {}", show_list(&p), show_list(&xs)), &show_list(&exp), || {
                from_f(&polynom::eval_many(&to_f::<F>(&p), &to_f::<F>(&xs)))
            });
            if s.deg > 1 {
                // coefficients in the base field, point in the extension
                let pb: Vec<u128> = (0..len).map(|_| if rng.chance(1, 6) { 0 } else { crate::c14::gen_coord(rng, s.p) }).collect();
                let pe: P = pb.iter().map(|&c| { let mut e = zero(&s); e[0] = c; e }).collect();
                out.count(&format!("{name}:eval-base-coeffs"));
                let req = format!("c13 {name} eval {} {}", show_list(&pb.iter().map(|&c| vec![c]).collect::<Vec<_>>()), show(&x));
                case(out, &req, &show(&p_eval(&s, &pe, &x)), || {
                    let pbf: Vec<F::BaseField> = pb.iter().map(|&c| match F::BaseField::try_from(c) { Ok(v) => v, Err(_) => panic!("canon") }).collect();
                    show(&polynom::eval(&pbf, F::from_canon(&x)).to_canon())
                });
            }
            let st = strip(&p);
            out.count(&format!("{name}:degree:{}", if st.is_empty() { "zero-poly" } else if st.len() < p.len() { "padded" } else { "exact" }));
            case(out, &format!("c13 {name} degree {}", show_list(&p)), &st.len().saturating_sub(1).to_string(), || {
                polynom::degree_of(&to_f::<F>(&p)).to_string()
            });
            case(out, &format!("c13 {name} rlz {}", show_list(&p)), &show_list(&st), || {
                from_f(&polynom::remove_leading_zeros(&to_f::<F>(&p)))
            });
            let k = pool.any(rng);
            let exp: P = p.iter().map(|c| o_mul(&s, c, &k)).collect();
            case(out, &format!("c13 {name} mulk {} {}", show_list(&p), show(&k)), &show_list(&exp), || {
                from_f(&polynom::mul_by_scalar(&to_f::<F>(&p), F::from_canon(&k)))
            });
        }
    }

    // ---- add / sub / mul ------------------------------------------------------------------------------
    let mut pairs: Vec<(usize, usize)> = vec![];
    for la in 0..=6 { for lb in 0..=6 { pairs.push((la, lb)); } }
    for _ in 0..(6 * reps) { pairs.push((rng.below(maxlen as u64 + 1) as usize, rng.below(maxlen as u64 + 1) as usize)); }
    for (la, lb) in pairs {
        let (a, b) = (gen_poly(rng, &pool, la), gen_poly(rng, &pool, lb));
        out.count(&format!("{name}:add/sub/mul:{}", if la == 0 && lb == 0 { "both-empty" } else if la == 0 || lb == 0 { "one-empty" } else { "non-empty" }));
        case(out, &format!("c13 {name} add {} {}", show_list(&a), show_list(&b)), &show_list(&p_add(&s, &a, &b)), || {
            from_f(&polynom::add(&to_f::<F>(&a), &to_f::<F>(&b)))
        });
        case(out, &format!("c13 {name} sub {} {}", show_list(&a), show_list(&b)), &show_list(&p_sub(&s, &a, &b)), || {
            from_f(&polynom::sub(&to_f::<F>(&a), &to_f::<F>(&b)))
        });
        // mul: no panic is documented; an empty slice is the zero polynomial, so the product with it
        // is a zero polynomial (any representation: empty or all-zero coefficients)
        let exp = if la == 0 || lb == 0 { "~^(empty|0(,0)*(;0(,0)*)*)$".to_string() } else { show_list(&p_mul(&s, &a, &b)) };
        case(out, &format!("c13 {name} mul {} {}", show_list(&a), show_list(&b)), &exp, || {
            from_f(&polynom::mul(&to_f::<F>(&a), &to_f::<F>(&b)))
        });
    }

    // ---- div ---------------------------------------------------------------------------------------------
    for db in 0..=6usize {
        for extra in 0..=5usize {
            for _ in 0..reps {
                let pz = rng.below(3) as usize;
                let b = gen_poly_deg(rng, &pool, db, pz);
                let exact = rng.chance(1, 2);
                let a = if exact {
                    let q = gen_poly_deg(rng, &pool, extra, 0);
                    pad(&s, &p_mul(&s, &strip(&b), &q), db + extra + 1 + rng.below(3) as usize)
                } else {
                    { let pz = rng.below(3) as usize; gen_poly_deg(rng, &pool, db + extra, pz) }
                };
                let (q, _) = p_divmod(&s, &a, &b);
                out.count(&format!("{name}:div:{}:deg-b={}", if exact { "exact" } else { "with-remainder" }, if db > 1 { ">1".to_string() } else { db.to_string() }));
                case(out, &format!("c13 {name} div {} {}", show_list(&a), show_list(&b)), &show_list(&q), || {
                    from_f(&polynom::div(&to_f::<F>(&a), &to_f::<F>(&b)))
                });
            }
        }
    }
    // zero dividend (degree 0 >= degree of a constant divisor): quotient is the zero polynomial [0]
    for la in 1..=3usize {
        let a: P = vec![pool.zero(); la];
        let pz = rng.below(2) as usize;
        let b = gen_poly_deg(rng, &pool, 0, pz);
        out.count(&format!("{name}:div:zero-dividend"));
        case(out, &format!("c13 {name} div {} {}", show_list(&a), show_list(&b)), &show_list(&vec![pool.zero()]), || {
            from_f(&polynom::div(&to_f::<F>(&a), &to_f::<F>(&b)))
        });
    }
    // empty dividend, constant divisor: not among the documented panics; the quotient is a zero polynomial
    {
        let b = gen_poly_deg(rng, &pool, 0, 0);
        out.count(&format!("{name}:div:empty-dividend"));
        case(out, &format!("c13 {name} div - {}", show_list(&b)), "~^(empty|0(,0)*)$", || {
            from_f(&polynom::div(&to_f::<F>(&[]), &to_f::<F>(&b)))
        });
    }
    // documented panics: empty b, zero constant b, deg b > deg a
    {
        let a = gen_poly_deg(rng, &pool, 2, 1);
        let bad: Vec<P> = vec![vec![], vec![pool.zero()], vec![pool.zero(), pool.zero()], gen_poly_deg(rng, &pool, 3, 0), gen_poly_deg(rng, &pool, 5, 2)];
        for b in bad {
            out.count(&format!("{name}:div:documented-panic"));
            case(out, &format!("c13 {name} div {} {}", show_list(&a), show_list(&b)), "abort", || {
                from_f(&polynom::div(&to_f::<F>(&a), &to_f::<F>(&b)))
            });
        }
    }

    // ---- syn_div / syn_div_in_place / syn_div_roots_in_place ------------------------------------------------
    for a in [1usize, 2, 3, 4, 7, 8, 16] {
        let mut lens: Vec<usize> = vec![a + 1, a + 2, 2 * a, 2 * a + 1, 3 * a + 2];
        for _ in 0..reps { lens.push(a + 1 + rng.below(maxlen as u64) as usize); }
        for len in lens {
            let p = gen_poly(rng, &pool, len);
            let b = match rng.below(4) { 0 => pool.elems[0].clone(), 1 => pool.elems[1].clone(), _ => pool.nonzero(rng) };
            let mut d: P = vec![pool.zero(); a + 1];
            d[0] = o_sub(&s, &zero(&s), &b);
            d[a] = o_one(&s);
            let (q, _) = p_divmod(&s, &p, &d);
            let exp = show_list(&pad(&s, &q, len));
            out.count(&format!("{name}:syndiv:a={}:b={}", if a == 1 { "1" } else { ">1" }, if b == o_one(&s) { "one" } else { "other" }));
            case(out, &format!("c13 {name} syndiv {} {a} {}", show_list(&p), show(&b)), &exp, || {
                from_f(&polynom::syn_div(&to_f::<F>(&p), a, F::from_canon(&b)))
            });
            case(out, &format!("c13 {name} syndivip {} {a} {}", show_list(&p), show(&b)), &exp, || {
                let mut v = to_f::<F>(&p);
                polynom::syn_div_in_place(&mut v, a, F::from_canon(&b));
                from_f(&v)
            });
        }
    }
    // documented panics: a = 0, b = 0, len <= a
    {
        let p = gen_poly(rng, &pool, 5);
        let b = pool.nonzero(rng);
        for (pp, a, bb) in [(p.clone(), 0usize, b.clone()), (p.clone(), 2, pool.zero()), (p.clone(), 5, b.clone()), (p.clone(), 9, b.clone()), (vec![], 1, b.clone())] {
            out.count(&format!("{name}:syndiv:documented-panic"));
            case(out, &format!("c13 {name} syndiv {} {a} {}", show_list(&pp), show(&bb)), "abort", || {
                from_f(&polynom::syn_div(&to_f::<F>(&pp), a, F::from_canon(&bb)))
            });
        }
    }
    for nr in 1..=6usize {
        for _ in 0..reps {
            // roots with duplicates and zeros
            let mut roots: Vec<E> = (0..nr).map(|_| pool.any(rng)).collect();
            if nr > 1 && rng.chance(1, 2) { let k = rng.below(nr as u64 - 1) as usize; roots[k + 1] = roots[k].clone(); }
            let len = nr + 1 + rng.below(maxlen as u64 / 2 + 1) as usize;
            let d = p_from_roots(&s, &roots);
            // half of the time the division is exact
            let p = if rng.chance(1, 2) { gen_poly(rng, &pool, len) } else { pad(&s, &p_mul(&s, &d, &gen_poly_deg(rng, &pool, len - nr - 1, 0)), len) };
            let (q, _) = p_divmod(&s, &p, &d);
            out.count(&format!("{name}:syndivroots"));
            case(out, &format!("c13 {name} syndivroots {} {}", show_list(&p), show_list(&roots)), &show_list(&pad(&s, &q, p.len())), || {
                let mut v = to_f::<F>(&p);
                polynom::syn_div_roots_in_place(&mut v, &to_f::<F>(&roots));
                from_f(&v)
            });
        }
    }
    {
        let p = gen_poly(rng, &pool, 3);
        let r3: Vec<E> = (0..3).map(|_| pool.any(rng)).collect();
        for roots in [vec![], r3] {
            out.count(&format!("{name}:syndivroots:documented-panic"));
            case(out, &format!("c13 {name} syndivroots {} {}", show_list(&p), show_list(&roots)), "abort", || {
                let mut v = to_f::<F>(&p);
                polynom::syn_div_roots_in_place(&mut v, &to_f::<F>(&roots));
                from_f(&v)
            });
        }
    }

    // ---- poly_from_roots ----------------------------------------------------------------------------------------
    for n in 0..=maxlen {
        let mut roots: Vec<E> = (0..n).map(|_| pool.any(rng)).collect();
        if n > 1 { roots[n - 1] = roots[0].clone(); }
        out.count(&format!("{name}:fromroots"));
        case(out, &format!("c13 {name} fromroots {}", show_list(&roots)), &show_list(&p_from_roots(&s, &roots)), || {
            from_f(&polynom::poly_from_roots(&to_f::<F>(&roots)))
        });
    }

    // ---- interpolate ----------------------------------------------------------------------------------------------
    let nmax = if s.deg == 1 { maxlen } else { maxlen.min(12) };
    for n in 0..=nmax {
        for variant in 0..3 {
            // variant 2: an x-coordinate equal to ZERO (not excluded by the documentation)
            let xs = gen_distinct(rng, &pool, n, variant == 2);
            // ys: random, or values of a polynomial of lower degree (leading zeros in the result)
            let ys: Vec<E> = if variant == 0 { (0..n).map(|_| pool.any(rng)).collect() } else {
                let ll = rng.below(n as u64 + 1) as usize;
                let low = gen_poly(rng, &pool, ll);
                xs.iter().map(|x| p_eval(&s, &low, x)).collect()
            };
            let full = p_lagrange(&s, &xs, &ys);
            for rlz in [false, true] {
                let exp = if rlz { strip(&full) } else { full.clone() };
                out.count(&format!("{name}:interp:{}", if variant == 2 && n > 0 { "x=0-among-xs" } else { "nonzero-xs" }));
                case(out, &format!("c13 {name} interp {t} {} {} {}", show_list(&xs), show_list(&ys), rlz as u8), &show_list(&exp), || {
                    from_f(&polynom::interpolate(&to_f::<F>(&xs), &to_f::<F>(&ys), rlz))
                });
            }
        }
    }
    // outside the (implicit) precondition: duplicate x-coordinates; model and implementation only
    for n in 2..=5usize {
        let mut xs = gen_distinct(rng, &pool, n, false);
        xs[n - 1] = xs[0].clone();
        let ys: Vec<E> = (0..n).map(|_| pool.any(rng)).collect();
        out.count(&format!("{name}:interp:duplicate-xs"));
        out.case(&format!("c13 {name} interp {t} {} {} 0", show_list(&xs), show_list(&ys)), "-", || {
            crate::c14::ans(&from_f(&polynom::interpolate(&to_f::<F>(&xs), &to_f::<F>(&ys), false)))
        });
    }
    run_ibatch::<F, 1>(rng, out, &pool, reps);
    run_ibatch::<F, 2>(rng, out, &pool, reps);
    run_ibatch::<F, 4>(rng, out, &pool, reps);
    run_ibatch::<F, 8>(rng, out, &pool, reps);
}

fn run_ibatch<F: Fld, const N: usize>(rng: &mut Rng, out: &mut Out, pool: &Pool, reps: usize) {
    let name = F::NAME;
    let s = pool.s;
    let t = threads();
    for nb in 0..=4usize {
        for _ in 0..reps {
            let xs: Vec<Vec<E>> = (0..nb).map(|_| { let z = rng.chance(1, 3); gen_distinct(rng, pool, N, z) }).collect();
            let ys: Vec<Vec<E>> = (0..nb).map(|_| (0..N).map(|_| pool.any(rng)).collect()).collect();
            let rows: Vec<String> = xs.iter().zip(&ys).map(|(x, y)| show_list(&p_lagrange(&s, x, y))).collect();
            let exp = if rows.is_empty() { "empty".to_string() } else { rows.join("|") };
            let flat = |v: &Vec<Vec<E>>| show_list(&v.iter().flatten().cloned().collect::<Vec<_>>());
            out.count(&format!("{name}:ibatch:N={N}"));
            case(out, &format!("c13 {name} ibatch {t} {N} {} {}", flat(&xs), flat(&ys)), &exp, || {
                let arr = |v: &Vec<Vec<E>>| -> Vec<[F; N]> { v.iter().map(|r| { let mut a = [F::ZERO; N]; for (k, e) in r.iter().enumerate() { a[k] = F::from_canon(e); } a }).collect() };
                let res = polynom::interpolate_batch(&arr(&xs), &arr(&ys));
                if res.is_empty() { "empty".to_string() } else { res.iter().map(|r| from_f(&r[..])).collect::<Vec<_>>().join("|") }
            });
        }
    }
}

pub fn run(rng: &mut Rng, out: &mut Out, n: usize) {
    // quick tier (n = 1): shorter maximal lengths for the two slower base fields
    let quick = n <= 1;
    run_field::<f64::BaseElement>(rng, out, n, if quick { 32 } else { 40 });
    run_field::<f62::BaseElement>(rng, out, n, if quick { 24 } else { 40 });
    run_field::<f128::BaseElement>(rng, out, n, if quick { 16 } else { 24 });
    run_field::<QuadExtension<f64::BaseElement>>(rng, out, n, 24);
    run_field::<QuadExtension<f62::BaseElement>>(rng, out, n, 16);
    run_field::<QuadExtension<f128::BaseElement>>(rng, out, n, 16);
    run_field::<CubeExtension<f64::BaseElement>>(rng, out, n, 16);
    run_field::<CubeExtension<f62::BaseElement>>(rng, out, n, 12);
}
