//! C11: field constants and canonical encodings.
use winter_math::{
    fields::{f128, f62, f64, CubeExtension, QuadExtension},
    FieldElement, StarkField,
};
use winter_utils::{Deserializable, Randomizable, Serializable, SliceReader, ByteReader};

use crate::c10::{mulmod, P128, P62, P64};
use crate::c26::err_str;
use crate::out::Out;
use crate::rng::{hex, Rng};

fn le(v: u128, n: usize) -> Vec<u8> { v.to_le_bytes()[..n].to_vec() }

fn read_show<E: FieldElement + Deserializable>(bytes: &[u8], canon: impl Fn(&E) -> String) -> String {
    let mut r = SliceReader::new(bytes);
    match E::read_from(&mut r) {
        Ok(v) => {
            let mut left = 0;
            while r.read_u8().is_ok() { left += 1; }
            format!("ok {} {}", canon(&v), bytes.len() - left)
        },
        Err(e) => format!("err {}", err_str(&e)),
    }
}

/// values around the modulus and type boundaries
fn boundary(rng: &mut Rng, p: u128, bits: u32) -> u128 {
    let max = if bits == 128 { u128::MAX } else { (1u128 << bits) - 1 };
    let v = match rng.below(8) {
        0 => p.wrapping_add(rng.below(5) as u128).wrapping_sub(2),
        1 => max - rng.below(3) as u128,
        2 => rng.below(3) as u128,
        3 => p - 1 - rng.below(3) as u128,
        4 => { let k = rng.below(bits as u64) as u32; (1u128 << k).wrapping_add(rng.below(3) as u128).wrapping_sub(1) },
        5 => (p << 1).wrapping_add(rng.below(3) as u128).wrapping_sub(1),
        _ => rng.next128(),
    };
    v & max
}

macro_rules! base_cases {
    ($rng:expr, $out:expr, $n:expr, $name:expr, $t:ty, $int:ty, $p:expr, $nb:expr) => {{
        let p: u128 = $p;
        let nb: usize = $nb;
        let canon = |e: &$t| format!("{}", e.as_int());
        // constants
        $out.case(&format!("c11 {} consts", $name), "-", || format!("{} {} {} {}", <$t>::MODULUS, <$t>::GENERATOR.as_int(), <$t>::TWO_ADICITY, <$t>::TWO_ADIC_ROOT_OF_UNITY.as_int()));
        $out.case(&format!("c11 {} modulus_bytes", $name), &hex(&le(p, nb)), || hex(&<$t>::get_modulus_le_bytes()));
        // every root-of-unity order
        for n in 1..=<$t>::TWO_ADICITY {
            $out.count("root");
            $out.case(&format!("c11 {} root {n}", $name), "~ order-ok$", || {
                let r = <$t>::get_root_of_unity(n);
                // exact order 2^n: r^(2^n) = 1 and r^(2^(n-1)) != 1, by repeated squaring
                let mut x = r;
                for _ in 0..(n - 1) { x = x.square(); }
                let half_ok = x != <$t>::ONE;
                let full_ok = x.square() == <$t>::ONE;
                format!("{} {}", r.as_int(), if half_ok && full_ok { "order-ok" } else { "WRONG-ORDER" })
            });
        }
        for _ in 0..$n {
            let v = boundary($rng, p, (nb * 8) as u32);
            let bytes = le(v, nb);
            let mut padded = bytes.clone();
            let extra = $rng.below(3) as usize;
            padded.extend($rng.bytes(extra));
            let exp = if v < p { format!("ok {v} {nb}") } else { "err invalid".to_string() };
            $out.count(if v < p { "decode:valid" } else { "decode:rejected" });
            $out.case(&format!("c11 {} read {}", $name, hex(&padded)), &exp, || read_show::<$t>(&padded, canon));
            // truncated
            let cut = $rng.below(nb as u64) as usize;
            $out.case(&format!("c11 {} read {}", $name, hex(&bytes[..cut])), "err eof", || read_show::<$t>(&bytes[..cut], canon));
            // byte-slice conversion: exact length only
            let exp_s = if v < p { format!("ok {v}") } else { "err".to_string() };
            $out.case(&format!("c11 {} try_slice {}", $name, hex(&bytes)), &exp_s, || match <$t>::try_from(bytes.as_slice()) { Ok(e) => format!("ok {}", e.as_int()), Err(_) => "err".into() });
            $out.case(&format!("c11 {} try_slice {}", $name, hex(&padded)), if padded.len() == nb { &exp_s } else { "err" }, || match <$t>::try_from(padded.as_slice()) { Ok(e) => format!("ok {}", e.as_int()), Err(_) => "err".into() });
            $out.case(&format!("c11 {} try_slice {}", $name, hex(&bytes[..cut])), "err", || match <$t>::try_from(&bytes[..cut]) { Ok(e) => format!("ok {}", e.as_int()), Err(_) => "err".into() });
            // from_random_bytes is the same decoder
            $out.case(&format!("c11 {} try_slice {}", $name, hex(&bytes)), &exp_s, || match <$t>::from_random_bytes(&bytes) { Some(e) => format!("ok {}", e.as_int()), None => "err".into() });
            // padding
            let short = &bytes[..cut];
            let sv = { let mut b = [0u8; 16]; b[..cut].copy_from_slice(short); u128::from_le_bytes(b) };
            $out.case(&format!("c11 {} pad {}", $name, hex(short)), &format!("ok {sv}"), || format!("ok {}", <$t>::from_bytes_with_padding(short).as_int()));
            // write / round trip for canonical values
            let w = v % p;
            $out.case(&format!("c11 {} write {w}", $name), &hex(&le(w, nb)), || hex(&<$t>::new(w as $int).to_bytes()));
            // silent reduction in `new`
            $out.case(&format!("c11 {} from_small {v}", $name), &format!("{}", v % p), || format!("{}", <$t>::new(v as $int).as_int()));
        }
    }};
}

pub fn run(rng: &mut Rng, out: &mut Out, n: usize) {
    base_cases!(rng, out, n, "f64", f64::BaseElement, u64, P64, 8);
    base_cases!(rng, out, n, "f62", f62::BaseElement, u64, P62, 8);
    base_cases!(rng, out, n, "f128", f128::BaseElement, u128, P128, 16);
    // integer conversions (impls differ per field)
    for _ in 0..n {
        let v = boundary(rng, P64, 64) as u64;
        let e = |ok: bool, v: u128| if ok { format!("ok {v}") } else { "err".to_string() };
        out.case(&format!("c11 f64 try_int {v}"), &e((v as u128) < P64, v as u128), || match f64::BaseElement::try_from(v) { Ok(x) => format!("ok {}", x.as_int()), Err(_) => "err".into() });
        let w = boundary(rng, P64, 128);
        out.case(&format!("c11 f64 try_int {w}"), &e(w < P64, w), || match f64::BaseElement::try_from(w) { Ok(x) => format!("ok {}", x.as_int()), Err(_) => "err".into() });
        out.case(&format!("c11 f64 try_int {v}"), &e((v as u128) < P64, v as u128), || match f64::BaseElement::try_from(v as usize) { Ok(x) => format!("ok {}", x.as_int()), Err(_) => "err".into() });
        out.case(&format!("c11 f64 try_int {v}"), &e((v as u128) < P64, v as u128), || match f64::BaseElement::try_from(v.to_le_bytes()) { Ok(x) => format!("ok {}", x.as_int()), Err(_) => "err".into() });
        let v2 = boundary(rng, P62, 64) as u64;
        out.case(&format!("c11 f62 try_int {v2}"), &e((v2 as u128) < P62, v2 as u128), || match f62::BaseElement::try_from(v2) { Ok(x) => format!("ok {}", x.as_int()), Err(_) => "err".into() });
        let w2 = boundary(rng, P62, 128);
        out.case(&format!("c11 f62 try_int {w2}"), &e(w2 < P62, w2), || match f62::BaseElement::try_from(w2) { Ok(x) => format!("ok {}", x.as_int()), Err(_) => "err".into() });
        out.case(&format!("c11 f62 try_int {v2}"), &e((v2 as u128) < P62, v2 as u128), || match f62::BaseElement::try_from(v2.to_le_bytes()) { Ok(x) => format!("ok {}", x.as_int()), Err(_) => "err".into() });
        let w3 = boundary(rng, P128, 128);
        out.case(&format!("c11 f128 try_int {w3}"), &e(w3 < P128, w3), || match f128::BaseElement::try_from(w3) { Ok(x) => format!("ok {}", x.as_int()), Err(_) => "err".into() });
        // small integers in, small integers out
        let s32 = rng.biased(32) as u32;
        out.case(&format!("c11 f64 from_small {s32}"), &format!("{s32}"), || format!("{}", f64::BaseElement::from(s32).as_int()));
        out.case(&format!("c11 f62 from_small {s32}"), &format!("{s32}"), || format!("{}", f62::BaseElement::from(s32).as_int()));
        out.case(&format!("c11 f128 from_small {s32}"), &format!("{s32}"), || format!("{}", f128::BaseElement::from(s32).as_int()));
        out.case(&format!("c11 f128 from_small {v}"), &format!("{v}"), || format!("{}", f128::BaseElement::from(v).as_int()));
        out.case(&format!("c11 f64 from_small {}", s32 as u16), &format!("{}", s32 as u16), || format!("{}", f64::BaseElement::from(s32 as u16).as_int()));
        out.case(&format!("c11 f64 from_small {}", s32 as u8), &format!("{}", s32 as u8), || format!("{}", f64::BaseElement::from(s32 as u8).as_int()));
        let c = (boundary(rng, P64, 64) % P64) as u64;
        let x = f64::BaseElement::new(c);
        for (bits, f) in [(1u32, 0usize), (8, 1), (16, 2), (32, 3)] {
            let exp = if (c as u128) < (1u128 << bits) { format!("ok {c}") } else { "err".to_string() };
            out.case(&format!("c11 f64 to_small {bits} {c}"), &exp, || {
                let r: Result<u64, String> = match f {
                    0 => bool::try_from(x).map(|b| b as u64),
                    1 => u8::try_from(x).map(|b| b as u64),
                    2 => u16::try_from(x).map(|b| b as u64),
                    _ => u32::try_from(x).map(|b| b as u64),
                };
                match r { Ok(v) => format!("ok {v}"), Err(_) => "err".into() }
            });
        }
        out.case(&format!("c11 f64 to_small 64 {c}"), &format!("ok {c}"), || format!("ok {}", u64::from(x)));
        out.case(&format!("c11 f64 to_small 128 {c}"), &format!("ok {c}"), || format!("ok {}", u128::from(x)));
        // extension elements: coordinates one after another, each canonical
        let (a0, a1, a2) = (boundary(rng, P64, 64), boundary(rng, P64, 64), boundary(rng, P64, 64));
        let mut b = le(a0, 8); b.extend(le(a1, 8));
        let exp2 = if a0 < P64 && a1 < P64 { format!("ok {a0},{a1} 16") } else { "err invalid".into() };
        out.case(&format!("c11 f64x2 read {}", hex(&b)), &exp2, || read_show::<QuadExtension<f64::BaseElement>>(&b, |e| { let c = e.to_base_elements(); format!("{},{}", c[0].as_int(), c[1].as_int()) }));
        let mut b3 = b.clone(); b3.extend(le(a2, 8));
        let exp3 = if a0 < P64 && a1 < P64 && a2 < P64 { format!("ok {a0},{a1},{a2} 24") } else { "err invalid".into() };
        out.case(&format!("c11 f64x3 read {}", hex(&b3)), &exp3, || read_show::<CubeExtension<f64::BaseElement>>(&b3, |e| { let c = e.to_base_elements(); format!("{},{},{}", c[0].as_int(), c[1].as_int(), c[2].as_int()) }));
        let (w0, w1) = (a0 % P64, a1 % P64);
        out.case(&format!("c11 f64x2 write {w0},{w1}"), "-", || hex(&QuadExtension::new(f64::BaseElement::new(w0 as u64), f64::BaseElement::new(w1 as u64)).to_bytes()));
        let (q0, q1) = (boundary(rng, P128, 128), boundary(rng, P128, 128));
        let mut bq = le(q0, 16); bq.extend(le(q1, 16));
        let expq = if q0 < P128 && q1 < P128 { format!("ok {q0},{q1} 32") } else { "err invalid".into() };
        out.case(&format!("c11 f128x2 read {}", hex(&bq)), &expq, || read_show::<QuadExtension<f128::BaseElement>>(&bq, |e| { let c = e.to_base_elements(); format!("{},{}", c[0].as_int(), c[1].as_int()) }));
    }
    let _ = mulmod;
}
