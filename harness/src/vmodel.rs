//! Families `vfy` (C05), `vfy4` (C04), `vfy3` (C03) and `vfyx` (the classes found through the model in
//! one place, for replays): the REAL `winter_verifier::verify` against the Lean model of the whole verifier
//! (lean/Wf/Model/Verifier.lean, driver key `vfy`).
//!
//! Statements are generated AIR descriptions (`genair.rs`; base field f64, extension degrees 1..3, no
//! auxiliary segment), proved by the REAL prover over the test hasher `VH` defined below (fully
//! specified folds of a splitmix64 step over 64-bit words; re-implemented word for word in
//! lean/Wf/Drv/Verifier.lean, so the model recomputes every digest, challenge and query position).
//! Request: `vfy <desc> <claimed values> <acceptable options> <proof hex>`; the implementation's
//! answer is `ok`, `err <VerifierError variant>[:detail]` or `PANIC <source file>`; the model must
//! give the IDENTICAL answer.  Oracles (the property's expectation, independent of both):
//!   vfy   honest proof -> `ok`; any mutated encoding -> anything but a panic / hang,
//!   vfy4  a mutated encoding is accepted only if it parses to the SAME proof,
//!   vfy3  an encoding with substituted revealed data or commitments is rejected with an error.
use std::marker::PhantomData;
use std::sync::{Arc, Mutex};

use winter_air::proof::Proof;
use winter_crypto::{DefaultRandomCoin, ElementHasher, Hasher, MerkleTree};
use winter_math::{fields::f64::BaseElement, FieldElement};
use winter_prover::Prover;
use winter_utils::{ByteReader, Serializable, SliceReader};
use winter_verifier::{verify, AcceptableOptions, VerifierError};

use crate::c10::{with_timeout, P64};
use crate::c18::TD;
use crate::genair::{build_trace, gen_instance_shaped, GenAir, GenProver, GenTrace, Instance, PubIn};
use crate::out::Out;
use crate::protocol::{fri_compatible, Opts};
use crate::rng::{hex, Rng};

// ---------------------------------------------------------------------------------------------
// the test hasher (identical to `Wf.Drv.Vfy.vh`)
// ---------------------------------------------------------------------------------------------
pub struct VH;

/// one absorption step: the splitmix64 finalizer of `(h ^ w) + golden ratio` (a bijection of the
/// state for fixed `w`, with full avalanche: every input bit reaches the low output bits from which
/// query positions are taken)
fn step(h: u64, w: u64) -> u64 {
    let mut z = (h ^ w).wrapping_add(0x9E3779B97F4A7C15);
    z = (z ^ (z >> 30)).wrapping_mul(0xBF58476D1CE4E5B9);
    z = (z ^ (z >> 27)).wrapping_mul(0x94D049BB133111EB);
    z ^ (z >> 31)
}
const IV: u64 = 0xcbf29ce484222325;
fn absorb(h: u64, d: &TD) -> u64 { d.0.iter().fold(h, |h, w| step(h, *w)) }
fn finish(h: u64) -> TD {
    let a = step(h, 0xa5);
    let b = step(a, 1);
    let c = step(b, 2);
    let d = step(c, 3);
    TD([a, b, c, d])
}

impl Hasher for VH {
    type Digest = TD;
    const COLLISION_RESISTANCE: u32 = 128;
    fn hash(bytes: &[u8]) -> TD {
        let h = bytes.iter().fold(step(IV, 0), |h, b| step(h, *b as u64));
        finish(step(h, bytes.len() as u64))
    }
    fn merge(values: &[TD; 2]) -> TD { finish(absorb(absorb(step(IV, 1), &values[0]), &values[1])) }
    fn merge_many(values: &[TD]) -> TD {
        let h = values.iter().fold(step(IV, 2), absorb);
        finish(step(h, values.len() as u64))
    }
    fn merge_with_int(seed: TD, value: u64) -> TD { finish(step(absorb(step(IV, 3), &seed), value)) }
}

impl ElementHasher for VH {
    type BaseField = BaseElement;
    fn hash_elements<E: FieldElement<BaseField = BaseElement>>(elements: &[E]) -> TD {
        let base = E::slice_as_base_elements(elements);
        let h = base.iter().fold(step(IV, 4), |h, b| step(h, b.as_int()));
        finish(step(h, base.len() as u64))
    }
}

type Coin = DefaultRandomCoin<VH>;
type VC = MerkleTree<VH>;
type B = BaseElement;

fn c64(v: u128) -> B { B::new((v % P64) as u64) }

// ---------------------------------------------------------------------------------------------
// running the real verifier
// ---------------------------------------------------------------------------------------------
static PANIC_FILE: Mutex<String> = Mutex::new(String::new());

fn install_hook() {
    std::panic::set_hook(Box::new(|info| {
        let f = info.location().map(|l| l.file().to_string()).unwrap_or_else(|| "?".into());
        if let Ok(mut g) = PANIC_FILE.lock() { *g = f; }
    }));
}
fn panic_file() -> String { PANIC_FILE.lock().map(|g| g.clone()).unwrap_or_default() }

fn deser_class(msg: &str) -> &'static str {
    if msg.starts_with("trace length is too large") { "lde" }
    else if msg.starts_with("number of queries") { "queries" }
    else if msg.starts_with("number of unique queries") { "nq0" }
    else if msg.starts_with("main trace segment query") { "main-queries" }
    else if msg.starts_with("auxiliary trace segment query") { "aux-queries" }
    else if msg.starts_with("constraint evaluation query") { "constraint-queries" }
    else if msg.starts_with("number of remainder values") || msg.starts_with("failed to parse FRI remainder") { "fri-remainder" }
    else if msg.starts_with("failed to parse FRI layer") { "fri-layer" }
    else if msg.starts_with("expected a domain of size") { "fri-layer-domain" }
    else if msg.starts_with("expected ") && msg.contains("FRI layers") { "fri-count" }
    else { "other" }
}

fn fri_render(e: &winter_fri::VerifierError) -> String {
    use winter_fri::VerifierError as F;
    match e {
        F::RandomCoinError(_) => "RandomCoinError".into(),
        F::UnsupportedFoldingFactor(f) => format!("UnsupportedFoldingFactor({f})"),
        F::NumPositionEvaluationMismatch(a, b) => format!("NumPositionEvaluationMismatch({a},{b})"),
        F::LayerCommitmentMismatch => "LayerCommitmentMismatch".into(),
        F::InvalidLayerFolding(d) => format!("InvalidLayerFolding({d})"),
        F::RemainderCommitmentMismatch => "RemainderCommitmentMismatch".into(),
        F::InvalidRemainderFolding => "InvalidRemainderFolding".into(),
        F::RemainderDegreeNotValid => "RemainderDegreeNotValid".into(),
        F::RemainderDegreeMismatch(d) => format!("RemainderDegreeMismatch({d})"),
        F::DegreeTruncation(a, b, c) => format!("DegreeTruncation({a},{b},{c})"),
    }
}

fn render(e: &VerifierError) -> String {
    use VerifierError as V;
    match e {
        V::InconsistentBaseField => "InconsistentBaseField".into(),
        V::UnsupportedFieldExtension(d) => format!("UnsupportedFieldExtension({d})"),
        V::ProofDeserializationError(m) => format!("ProofDeserializationError:{}", deser_class(m)),
        V::RandomCoinError => "RandomCoinError".into(),
        V::InconsistentOodConstraintEvaluations => "InconsistentOodConstraintEvaluations".into(),
        V::TraceQueryDoesNotMatchCommitment => "TraceQueryDoesNotMatchCommitment".into(),
        V::ConstraintQueryDoesNotMatchCommitment => "ConstraintQueryDoesNotMatchCommitment".into(),
        V::QuerySeedProofOfWorkVerificationFailed => "QuerySeedProofOfWorkVerificationFailed".into(),
        V::FriVerificationFailed(f) => format!("FriVerificationFailed:{}", fri_render(f)),
        V::InsufficientConjecturedSecurity(a, b) => format!("InsufficientConjecturedSecurity({a},{b})"),
        V::InsufficientProvenSecurity(a, b) => format!("InsufficientProvenSecurity({a},{b})"),
        V::UnacceptableProofOptions => "UnacceptableProofOptions".into(),
    }
}

#[derive(Clone)]
pub enum Acc { Set(Vec<Opts>), Conj(u32) }

impl Acc {
    fn build(&self) -> AcceptableOptions {
        match self {
            Acc::Set(os) => AcceptableOptions::OptionSet(os.iter().map(|o| o.build()).collect()),
            Acc::Conj(b) => AcceptableOptions::MinConjecturedSecurity(*b),
        }
    }
    fn show(&self) -> String {
        match self {
            Acc::Set(os) => format!("set:{}", os.iter().map(|o| o.show()).collect::<Vec<_>>().join(";")),
            Acc::Conj(b) => format!("conj:{b}"),
        }
    }
}

/// `Proof::from_bytes` + `verify`, every panic caught and named by the source file it comes from
fn run_real(bytes: &[u8], pub_in: PubIn<B>, acc: &Acc) -> String {
    let parsed = std::panic::catch_unwind(|| Proof::from_bytes(bytes));
    let proof = match parsed {
        Err(_) => return format!("PANIC {}", panic_file()),
        Ok(Err(_)) => return "err ProofFromBytes".into(),
        Ok(Ok(p)) => p,
    };
    let acceptable = acc.build();
    let v = std::panic::catch_unwind(std::panic::AssertUnwindSafe(move || verify::<GenAir<B>, VH, Coin, VC>(proof, pub_in, &acceptable)));
    match v {
        Err(_) => format!("PANIC {}", panic_file()),
        Ok(Err(e)) => format!("err {}", render(&e)),
        Ok(Ok(())) => "ok".into(),
    }
}

// ---------------------------------------------------------------------------------------------
// honest proofs
// ---------------------------------------------------------------------------------------------
pub struct Honest { pub inst: Instance, pub opts: Opts, pub pub_in: PubIn<B>, pub proof: Proof, pub bytes: Vec<u8> }

fn gen_small_instance(rng: &mut Rng, min_log: u64, max_log: u64) -> Instance {
    loop {
        let long = rng.chance(1, 4);
        let inst = gen_instance_shaped(rng, P64, min_log, max_log, true, long);
        if inst.desc.aux_width == 0 && inst.desc.width <= 4 { return inst; }
    }
}

fn gen_options(rng: &mut Rng, inst: &Instance) -> Opts {
    let n = inst.n;
    let mut need = 2usize;
    for t in inst.desc.trans.iter() { need = need.max((t.degree + t.cycles.len() - 1).next_power_of_two().max(2)); }
    let mut b = need;
    while b < 16 && rng.chance(1, 3) { b *= 2; }
    let (mut f, mut rd);
    loop {
        f = *rng.pick(&[2usize, 2, 4, 4, 8, 16]);
        rd = *rng.pick(&[0usize, 1, 3, 7, 15, 31]);
        if fri_compatible(n, f, rd) { break; }
    }
    let mut q = *rng.pick(&[1usize, 2, 4, 7, 12, 20, 28]);
    while q >= n * b { q /= 2; }
    Opts {
        q: q.max(1), b, g: *rng.pick(&[0u32, 0, 0, 3, 6]), e: *rng.pick(&[1u8, 1, 1, 2, 2, 3]), f, rd,
        bc: rng.below(3) as u8, bd: rng.below(3) as u8,
        np: *rng.pick(&[1usize, 1, 1, 2, 3, 4]),
        hr: *rng.pick(&[1usize, 2, 4, 8]),
    }
}

fn prove(inst: &Instance, opts: &Opts) -> Option<(PubIn<B>, Proof)> {
    let claimed: Vec<Vec<u128>> = inst.desc.asserts.iter().map(|a| a.values.clone()).collect();
    let pub_in = PubIn { desc: Arc::new(inst.desc.clone()), claimed, conv: c64 as fn(u128) -> B };
    let cols = build_trace(inst, P64);
    let columns: Vec<Vec<B>> = cols.iter().map(|c| c.iter().map(|v| c64(*v)).collect()).collect();
    let options = opts.build();
    let (pi, d) = (pub_in.clone(), inst.desc.clone());
    let res = std::panic::catch_unwind(std::panic::AssertUnwindSafe(move || {
        let trace = GenTrace::new(columns, d.aux_width, d.num_rands);
        let prover = GenProver::<B, VH> { options, pub_in: pi, aux_corruption: None, _h: PhantomData };
        prover.prove(trace)
    }));
    match res { Ok(Ok(proof)) => Some((pub_in, proof)), _ => None }
}

fn make_honest(rng: &mut Rng, min_log: u64, max_log: u64) -> Option<Honest> {
    let inst = gen_small_instance(rng, min_log, max_log);
    let opts = gen_options(rng, &inst);
    let (pub_in, proof) = prove(&inst, &opts)?;
    let bytes = proof.to_bytes();
    Some(Honest { inst, opts, pub_in, proof, bytes })
}

fn pub_text(claimed: &[Vec<u128>]) -> String {
    if claimed.is_empty() { return "-".into(); }
    claimed.iter().map(|c| if c.is_empty() { "_".to_string() } else { c.iter().map(|v| v.to_string()).collect::<Vec<_>>().join("/") }).collect::<Vec<_>>().join("|")
}

fn request(h: &Honest, acc: &Acc, bytes: &[u8]) -> String {
    format!("vfy {} {} {} {}", h.inst.desc.text(), pub_text(&h.pub_in.claimed), acc.show(), hex(bytes))
}

/// a request whose first word names the mutation class (ignored by the model; the keys of recorded
/// findings in known_findings.txt start with `vfy_<class>_`)
fn request_tagged(tag: &str, h: &Honest, acc: &Acc, bytes: &[u8]) -> String {
    format!("vfy {tag} {} {} {} {}", h.inst.desc.text(), pub_text(&h.pub_in.claimed), acc.show(), hex(bytes))
}

// ---------------------------------------------------------------------------------------------
// layout of the encoding
// ---------------------------------------------------------------------------------------------
#[derive(Clone)]
struct PVec { name: &'static str, prefix_pos: usize, width: usize, data_pos: usize, len: usize }

struct Layout { ctx_len: usize, vecs: Vec<PVec>, nl_pos: usize, np_pos: usize, nonce_pos: usize }

/// positions of all length-prefixed byte vectors in the proof encoding (width 0 = vint64 prefix)
fn layout(h: &Honest) -> Layout {
    let bytes = &h.bytes;
    let mut out = Vec::new();
    let ctx_len = h.proof.context.to_bytes().len();
    let mut pos = ctx_len + 1;
    let fixed = |out: &mut Vec<PVec>, pos: &mut usize, name: &'static str, w: usize| {
        let mut l = 0usize;
        for i in 0..w { l |= (bytes[*pos + i] as usize) << (8 * i); }
        out.push(PVec { name, prefix_pos: *pos, width: w, data_pos: *pos + w, len: l });
        *pos += w + l;
    };
    let vint = |out: &mut Vec<PVec>, pos: &mut usize, name: &'static str| {
        let mut r = SliceReader::new(&bytes[*pos..]);
        let l = r.read_usize().unwrap();
        let pl = l.to_bytes().len();
        out.push(PVec { name, prefix_pos: *pos, width: 0, data_pos: *pos + pl, len: l });
        *pos += pl + l;
    };
    fixed(&mut out, &mut pos, "commitments", 2);
    for _ in 0..h.proof.trace_queries.len() {
        vint(&mut out, &mut pos, "trace-values");
        vint(&mut out, &mut pos, "trace-paths");
    }
    vint(&mut out, &mut pos, "constraint-values");
    vint(&mut out, &mut pos, "constraint-paths");
    fixed(&mut out, &mut pos, "ood-trace", 2);
    fixed(&mut out, &mut pos, "ood-constraints", 2);
    let nl_pos = pos;
    let nl = bytes[pos] as usize;
    pos += 1;
    for _ in 0..nl {
        fixed(&mut out, &mut pos, "fri-values", 4);
        fixed(&mut out, &mut pos, "fri-paths", 4);
    }
    fixed(&mut out, &mut pos, "fri-remainder", 2);
    assert_eq!(pos + 1 + 8, bytes.len(), "proof layout walk is out of step with the encoding");
    Layout { ctx_len, vecs: out, nl_pos, np_pos: pos, nonce_pos: pos + 1 }
}

fn find<'a>(l: &'a Layout, name: &str) -> Vec<&'a PVec> { l.vecs.iter().filter(|v| v.name == name).collect() }

/// replace the content of a length-prefixed vector, re-encoding its prefix
fn replace_vec(bytes: &[u8], v: &PVec, data: &[u8]) -> Vec<u8> {
    let mut b = bytes[..v.prefix_pos].to_vec();
    match v.width { 0 => b.extend(data.len().to_bytes()), w => b.extend(&(data.len() as u64).to_le_bytes()[..w]) }
    b.extend(data);
    b.extend(&bytes[v.data_pos + v.len..]);
    b
}

/// add 1 (mod p) to the little-endian field element at `at`
fn bump_element(b: &mut [u8], at: usize) {
    let v = u64::from_le_bytes(b[at..at + 8].try_into().unwrap());
    let w = ((v as u128 + 1) % P64) as u64;
    b[at..at + 8].copy_from_slice(&w.to_le_bytes());
}

// ---------------------------------------------------------------------------------------------
// mutations
// ---------------------------------------------------------------------------------------------
/// the twelve classes of `tamper.rs::mutate`, one per call in a fixed rotation
fn mutate_class(rng: &mut Rng, bytes: &[u8], class: u64) -> (Vec<u8>, &'static str) {
    let mut m = bytes.to_vec();
    let n = m.len();
    match class % 12 {
        0 => { let c = rng.below(n as u64) as usize; m.truncate(c); (m, "truncate") },
        1 => { let k = 1 + rng.below(8) as usize; m.extend(rng.bytes(k)); (m, "append") },
        2 => { let i = rng.below(n as u64) as usize; m[i] ^= 1 << rng.below(8); (m, "bitflip") },
        3 => { let i = rng.below(n as u64) as usize; m[i] = rng.next() as u8; (m, "byte") },
        4 => { let i = rng.below(n.min(40) as u64) as usize; m[i] = *rng.pick(&[0u8, 1, 2, 3, 0x7f, 0x80, 0xfe, 0xff, 64, 63]); (m, "header-value") },
        5 => { let i = rng.below(n.min(40) as u64) as usize; m[i] = m[i].wrapping_add(1); (m, "header-inc") },
        6 => { let i = rng.below(n as u64) as usize; m.insert(i, rng.next() as u8); (m, "insert") },
        7 => { let i = rng.below(n as u64) as usize; m.remove(i); (m, "delete") },
        8 => {
            let i = rng.below((n - 4) as u64) as usize;
            let v: [u8; 4] = *rng.pick(&[[0, 0, 0, 0], [0xff, 0xff, 0xff, 0xff], [0xff, 0xff, 0, 0], [0, 0, 0, 0x80], [1, 0, 0, 0]]);
            m[i..i + 4].copy_from_slice(&v);
            (m, "length-field")
        },
        9 => {
            let i = rng.below((n - 9) as u64) as usize;
            m[i] = 0;
            for k in 1..9 { m[i + k] = 0xff; }
            (m, "vint-huge")
        },
        10 => { let a = rng.below(n as u64) as usize; let b = rng.below(n as u64) as usize; m.swap(a, b); (m, "swap") },
        _ => { let l = rng.below(64) as usize; (rng.bytes(l), "random") },
    }
}

struct Mutant { class: String, bytes: Vec<u8>, acc: Acc, substitution: bool }

/// structured mutations: one revealed value / node / coefficient / count / context field changed,
/// the rest of the encoding intact (length prefixes re-encoded where a length changes)
fn structured(rng: &mut Rng, h: &Honest) -> Vec<Mutant> {
    let l = layout(h);
    let honest_acc = Acc::Set(vec![h.opts.clone()]);
    let mut out: Vec<Mutant> = Vec::new();
    let mut push = |class: &str, bytes: Vec<u8>, subst: bool| out.push(Mutant { class: class.to_string(), bytes, acc: honest_acc.clone(), substitution: subst });
    let by = &h.bytes;
    // --- out-of-domain frame ---
    // every vector of field elements is a sequence of 8-byte base-field coefficients
    for name in ["ood-trace", "ood-constraints"] {
        let v = find(&l, name)[0];
        let k = (v.len - 1) / 8;
        let e = rng.below(k as u64) as usize;
        let mut b = by.clone();
        bump_element(&mut b, v.data_pos + 1 + 8 * e);
        push(&format!("{name}:element"), b, true);
    }
    {
        let v = find(&l, "ood-trace")[0];
        let mut b = by.clone();
        for k in 0..8 { b[v.data_pos + 1 + k] = 0xff; }
        push("ood-trace:noncanonical", b, true);
        let mut b = by.clone();
        b[v.data_pos] = 3;
        push("ood-trace:frame-size", b, true);
    }
    // --- queried values ---
    for name in ["trace-values", "constraint-values"] {
        let v = find(&l, name)[0];
        let e = rng.below((v.len / 8) as u64) as usize;
        let mut b = by.clone();
        bump_element(&mut b, v.data_pos + 8 * e);
        push(&format!("{name}:element"), b, true);
    }
    // --- Merkle openings: a node, the depth byte ---
    for name in ["trace-paths", "constraint-paths", "fri-paths"] {
        let vs = find(&l, name);
        if vs.is_empty() { continue; }
        let v = vs[rng.below(vs.len() as u64) as usize];
        if v.len > 40 {
            let i = v.data_pos + v.len - 1 - rng.below(32) as usize;
            let mut b = by.clone();
            b[i] ^= 1 << rng.below(8);
            push(&format!("{name}:node"), b, true);
        }
        let mut b = by.clone();
        b[v.data_pos] = b[v.data_pos].wrapping_add(1);
        push(&format!("{name}:depth"), b, true);
    }
    // --- FRI layers and remainder ---
    {
        let vs = find(&l, "fri-values");
        if !vs.is_empty() {
            let v = vs[rng.below(vs.len() as u64) as usize];
            let e = rng.below((v.len / 8) as u64) as usize;
            let mut b = by.clone();
            bump_element(&mut b, v.data_pos + 8 * e);
            push("fri-values:element", b, true);
            // one more row of values (prefix re-encoded)
            let mut data = by[v.data_pos..v.data_pos + v.len].to_vec();
            let extra = data[..8 * h.opts.f * h.opts.e as usize].to_vec();
            data.extend(extra);
            push("fri-values:extra-row", replace_vec(by, v, &data), true);
        }
        let v = find(&l, "fri-remainder")[0];
        let e = rng.below((v.len / 8) as u64) as usize;
        let mut b = by.clone();
        bump_element(&mut b, v.data_pos + 8 * e);
        push("fri-remainder:coefficient", b, true);
        let data = by[v.data_pos..v.data_pos + v.len].to_vec();
        let mut longer = data.clone();
        longer.extend(&data);
        push("fri-remainder:doubled", replace_vec(by, v, &longer), true);
        let mut b = by.clone();
        b[l.np_pos] = b[l.np_pos].wrapping_add(1);
        push("fri:num-partitions", b, false);
        let mut b = by.clone();
        b[l.nl_pos] = b[l.nl_pos].wrapping_add(1);
        push("fri:num-layers+1", b, false);
    }
    // --- nonce, number of unique queries ---
    {
        let mut b = by.clone();
        b[l.nonce_pos] = b[l.nonce_pos].wrapping_add(1);
        push("nonce+1", b, false);
        let mut b = by.clone();
        b[l.nonce_pos + 7] ^= 0x80;
        push("nonce^2^63", b, false);
        for (name, d) in [("unique-queries+1", 1u8), ("unique-queries-1", 255u8)] {
            let mut b = by.clone();
            b[l.ctx_len] = b[l.ctx_len].wrapping_add(d);
            push(name, b, false);
        }
        let mut b = by.clone();
        b[l.ctx_len] = 0;
        push("unique-queries=0", b, false);
    }
    // --- commitments ---
    {
        let v = find(&l, "commitments")[0];
        let ncm = v.len / 32;
        for (name, which) in [("commitment:trace", 0usize), ("commitment:constraint", 1), ("commitment:fri-last", ncm - 1)] {
            let mut b = by.clone();
            b[v.data_pos + 32 * which + rng.below(32) as usize] ^= 1 << rng.below(8);
            push(name, b, true);
        }
        let data = by[v.data_pos..v.data_pos + v.len].to_vec();
        push("commitment:dropped", replace_vec(by, v, &data[..v.len - 32]), true);
        let mut more = data.clone();
        more.extend(&data[..32]);
        push("commitment:extra", replace_vec(by, v, &more), true);
    }
    // --- truncation at component boundaries ---
    {
        let v = &l.vecs[rng.below(l.vecs.len() as u64) as usize];
        push("truncate:boundary", by[..v.data_pos + v.len].to_vec(), false);
        push("truncate:nonce", by[..by.len() - 1 - rng.below(8) as usize].to_vec(), false);
    }
    drop(push);
    // --- context fields (the encoding starts with: main width, aux width, aux rands, log2 length,
    //     u16 metadata length, modulus length + bytes, ten option bytes, vint constraint count) ---
    let meta_len = by[4] as usize | ((by[5] as usize) << 8);
    let mod_pos = 6 + meta_len;
    let mod_len = by[mod_pos] as usize;
    let opt_pos = mod_pos + 1 + mod_len;
    let mut ctx_mut = |class: &str, pos: usize, val: u8, acc: Acc| {
        let mut b = by.clone();
        b[pos] = val;
        out.push(Mutant { class: class.to_string(), bytes: b, acc, substitution: false });
    };
    ctx_mut("ctx:width+1", 0, by[0].wrapping_add(1), honest_acc.clone());
    ctx_mut("ctx:width-1", 0, by[0].wrapping_sub(1), honest_acc.clone());
    ctx_mut("ctx:aux-width=1", 1, 1, honest_acc.clone());
    ctx_mut("ctx:length*2", 3, by[3] + 1, honest_acc.clone());
    ctx_mut("ctx:length/2", 3, by[3] - 1, honest_acc.clone());
    ctx_mut("ctx:modulus-byte", mod_pos + 1 + rng.below(mod_len as u64) as usize, by[mod_pos + 1] ^ 0x10, honest_acc.clone());
    ctx_mut("ctx:constraints+1", opt_pos + 10, by[opt_pos + 10].wrapping_add(2), honest_acc.clone());
    // option bytes: another VALID value; in half of the cases the verifier also accepts the changed
    // option set, so that verification proceeds beyond the option check
    let alt = |i: usize, o: &Opts| -> Opts {
        let mut a = o.clone();
        match i {
            0 => a.q = if o.q > 1 { o.q - 1 } else { o.q + 1 },
            1 => a.b = if o.b < 64 { o.b * 2 } else { o.b / 2 },
            2 => a.g = o.g + 1,
            3 => a.e = if o.e == 1 { 2 } else { o.e - 1 },
            4 => a.f = if o.f == 2 { 4 } else { o.f / 2 },
            5 => a.rd = if o.rd == 0 { 1 } else { (o.rd + 1) / 2 - 1 },
            6 => a.bc = (o.bc + 1) % 3,
            7 => a.bd = (o.bd + 1) % 3,
            8 => a.np = if o.np == 1 { 2 } else { o.np - 1 },
            _ => a.hr = if o.hr == 1 { 2 } else { o.hr - 1 },
        }
        a
    };
    let names = ["queries", "blowup", "grinding", "extension", "folding", "remainder-degree", "constraint-batching", "deep-batching", "partitions", "hash-rate"];
    for i in 0..10 {
        // a sample of the ten option bytes per proof
        if !rng.chance(1, 2) { continue; }
        let a = alt(i, &h.opts);
        let enc = a.build().to_bytes();
        let accept_too = rng.chance(1, 2);
        let acc = if accept_too { Acc::Set(vec![h.opts.clone(), a.clone()]) } else { honest_acc.clone() };
        ctx_mut(&format!("ctx:opt:{}{}", names[i], if accept_too { ":accepted" } else { "" }), opt_pos + i, enc[i], acc);
    }
    out
}

/// verifier-side variations of the ACCEPTABLE options on the honest encoding
fn acceptable_variants(h: &Honest) -> Vec<(String, Acc)> {
    let mut other = h.opts.clone();
    other.q = if other.q > 1 { other.q - 1 } else { 2 };
    vec![
        ("acc:other-set".into(), Acc::Set(vec![other.clone()])),
        ("acc:two-sets".into(), Acc::Set(vec![other, h.opts.clone()])),
        ("acc:conj-0".into(), Acc::Conj(0)),
        ("acc:conj-high".into(), Acc::Conj(100)),
    ]
}

// ---------------------------------------------------------------------------------------------
// families
// ---------------------------------------------------------------------------------------------
#[derive(Clone, Copy, PartialEq)]
enum Mode { C05, C04, C03 }

/// every column of the trace is constant: all trace / composition / DEEP polynomials are constants,
/// every Merkle leaf of a tree is the same, so the proof does not depend on the transcript at all
/// (any nonce, batching method or context value that still parses is accepted with the SAME openings)
fn fully_constant(inst: &Instance) -> bool {
    build_trace(inst, P64).iter().all(|c| c.iter().all(|v| *v == c[0]))
}

fn one(rng: &mut Rng, out: &mut Out, mode: Mode, it: usize) {
    let max_log = *[3u64, 4, 5, 6, 4, 5].get(it % 6).unwrap();
    let mut honest = make_honest(rng, 3, max_log);
    // C04 ("accepted only if the parsed proof is the same") is about proofs that depend on their
    // transcript; the degenerate all-constant statement is counted and replaced
    let mut tries = 0;
    while mode == Mode::C04 && tries < 20 && honest.as_ref().map(|h| fully_constant(&h.inst)).unwrap_or(false) {
        out.count("c04:fully-constant-trace-replaced");
        honest = make_honest(rng, 3, max_log);
        tries += 1;
    }
    let Some(h) = honest else { out.count("honest-proof-failed"); return; };
    if fully_constant(&h.inst) { out.count("fully-constant-trace"); }
    let acc = Acc::Set(vec![h.opts.clone()]);
    out.count(&format!("n:{}", h.inst.n));
    out.count(&format!("fold:{}", h.opts.f));
    out.count(&format!("ext:{}", h.opts.e));
    out.count(&format!("width:{}", h.inst.desc.width));
    if !h.inst.desc.periodic.is_empty() { out.count("periodic"); }
    if h.opts.g > 0 { out.count("grinding"); }
    if h.opts.np > 1 { out.count("partitions"); }
    let mut detail = String::new();
    {
        let (b, pi, a) = (h.bytes.clone(), h.pub_in.clone(), acc.clone());
        out.case(&request(&h, &acc, &h.bytes), "ok", || { let r = run_real(&b, pi, &a); detail = r.clone(); r });
    }
    if detail != "ok" { out.count(&format!("honest-rejected:{}", detail.chars().take(60).collect::<String>())); }
    let mut muts: Vec<Mutant> = Vec::new();
    if mode != Mode::C03 {
        for c in 0..12u64 {
            let (m, kind) = mutate_class(rng, &h.bytes, c);
            muts.push(Mutant { class: kind.to_string(), bytes: m, acc: acc.clone(), substitution: false });
        }
    }
    muts.extend(structured(rng, &h));
    for m in muts {
        if mode == Mode::C03 && !m.substitution { continue; }
        // C04: two classes are accepted-but-different on the unchanged tree (recorded findings of C04,
        // known_findings.txt keys `vfy_npart_*` / `vfy_optbyte_*`): the FRI partition exponent (unused
        // when the mapping of the queried positions is the identity, always so without FRI layers) and
        // the four option bytes that ProofOptions::to_elements does not put into the public-coin seed
        // (partition count, hash rate, constraint / DEEP batching method) when the verifier accepts
        // both option sets and the changed option has no effect on this proof (same partition sizes;
        // coefficients that only multiply identically vanishing terms).  They run under their own
        // class names and are judged like every other mutant.
        let mut tag: Option<&'static str> = None;
        if mode == Mode::C04 {
            if m.class == "fri:num-partitions" { tag = Some("npart"); }
            if m.class == "ctx:opt:partitions:accepted" || m.class == "ctx:opt:hash-rate:accepted"
                || m.class == "ctx:opt:constraint-batching:accepted" || m.class == "ctx:opt:deep-batching:accepted" { tag = Some("optbyte"); }
            // ... also when a byte-level class happens to change nothing but the FRI partition exponent
            if m.bytes.len() == h.bytes.len() {
                let np_pos = h.bytes.len() - 9;
                let mut back = m.bytes.clone();
                back[np_pos] = h.bytes[np_pos];
                if back == h.bytes && m.bytes != h.bytes { tag = Some("npart"); }
            }
        }
        out.count(&format!("mutation:{}", m.class));
        let oracle = match mode {
            Mode::C05 => "~^(ok|err )".to_string(),
            Mode::C03 => "~^err ".to_string(),
            // a mutant that differs in the proof-of-work nonce ONLY is not judged: a different nonce that
            // satisfies the grinding factor and happens to draw the same query positions is accepted by
            // design, which has non-negligible probability on the small domains of this stream (the
            // nonce classes of stream c04 run on larger parameters)
            Mode::C04 if m.bytes.len() == h.bytes.len() && m.bytes != h.bytes && m.bytes[..m.bytes.len() - 8] == h.bytes[..h.bytes.len() - 8] => {
                out.count("c04:nonce-only-not-judged");
                "~^(ok|err |PANIC )".to_string()
            },
            Mode::C04 => {
                // accepted only if the mutated encoding parses to the same proof
                let same = std::panic::catch_unwind(|| Proof::from_bytes(&m.bytes)).ok().and_then(|r| r.ok()).map(|p| p == h.proof).unwrap_or(false);
                if same { "ok".to_string() } else { "~^(err |PANIC )".to_string() }
            },
        };
        let (b, pi, a) = (m.bytes.clone(), h.pub_in.clone(), m.acc.clone());
        let req = match tag { Some(t) => request_tagged(t, &h, &m.acc, &m.bytes), None => request(&h, &m.acc, &m.bytes) };
        let mut got = String::new();
        out.case(&req, &oracle, || { let r = with_timeout(move || run_real(&b, pi, &a)); got = r.clone(); r });
        out.count(&format!("answer:{}", got.split(':').next().unwrap_or("").chars().take(48).collect::<String>()));
    }
    if mode == Mode::C05 {
        for (name, a) in acceptable_variants(&h) {
            out.count(&format!("mutation:{name}"));
            let (b, pi, a2) = (h.bytes.clone(), h.pub_in.clone(), a.clone());
            out.case(&request(&h, &a, &h.bytes), "~^(ok|err )", || run_real(&b, pi, &a2));
        }
        // repaired by /repo ceafb22 (both were predicted by the model): must be errors, not panics
        modulus_length_class(out, &h, "~^err ");
        if it % 2 == 0 { queries_domain_class(rng, out, it, "~^err "); }
        // recorded findings of C05 (one root cause: verify() trusts the proof's TraceInfo before the AIR
        // and its assertions are built): a proof for ANOTHER trace length, against this statement
        cross_length_class(rng, out, &h, "~^(ok|err )");
        if it % 2 == 1 { periodic_class(rng, out, "~^(ok|err )"); }
    }
    if mode == Mode::C04 {
        // the four option bytes outside the seed under MinConjecturedSecurity (the verifier states no
        // option set at all)
        option_bytes_class(out, &h, true);
    }
}

// ---------------------------------------------------------------------------------------------
// classes found through the model's panic sites / unbound fields
// ---------------------------------------------------------------------------------------------
/// a context whose field-modulus bytes are padded with zero bytes to 14 / 15 / 16 / 40 bytes
/// (before ceafb22: panic in from_bytes_with_padding for 15 and more)
fn modulus_length_class(out: &mut Out, h: &Honest, oracle: &str) {
    let by = &h.bytes;
    let meta_len = by[4] as usize | ((by[5] as usize) << 8);
    let mod_pos = 6 + meta_len;
    let mod_len = by[mod_pos] as usize;
    for new_len in [14usize, 15, 16, 40] {
        let mut b = by[..mod_pos].to_vec();
        b.push(new_len as u8);
        b.extend(&by[mod_pos + 1..mod_pos + 1 + mod_len]);
        b.extend(vec![0u8; new_len - mod_len]);
        b.extend(&by[mod_pos + 1 + mod_len..]);
        let acc = Acc::Set(vec![h.opts.clone()]);
        out.count("mutation:modulus-length");
        let (bb, pi, a) = (b.clone(), h.pub_in.clone(), acc.clone());
        out.case(&request_tagged("modlen", h, &acc, &b), oracle, || run_real(&bb, pi, &a));
    }
}

/// options whose number of queries is not below the LDE domain size; the proof comes from a prover
/// whose coin has no assertion (before ceafb22: panic in draw_integers)
fn queries_domain_class(rng: &mut Rng, out: &mut Out, it: usize, oracle: &str) {
    let inst = gen_small_instance(rng, 3, 3);
    let mut opts = gen_options(rng, &inst);
    opts.g = 0;
    opts.q = *[inst.n * opts.b, inst.n * opts.b + 5, 255].get((it / 2) % 3).unwrap();
    if let Some((pub_in, proof)) = prove_lenient(&inst, &opts) {
        let h = Honest { bytes: proof.to_bytes(), inst, opts, pub_in, proof };
        for acc in [Acc::Set(vec![h.opts.clone()]), Acc::Conj(20)] {
            out.count("mutation:queries>=domain");
            let (bb, pi, a) = (h.bytes.clone(), h.pub_in.clone(), acc.clone());
            out.case(&request_tagged("qdom", &h, &acc, &h.bytes), oracle, || run_real(&bb, pi, &a));
        }
    } else { out.count("queries>=domain:prover-failed"); }
}

/// the same description proved for other trace lengths (with one assertion that is valid there),
/// verified against the statement of `h` (whose assertions need not be valid for that length)
fn cross_length_class(rng: &mut Rng, out: &mut Out, h: &Honest, oracle: &str) {
    for n2 in [8usize, h.inst.n * 2] {
        if n2 == h.inst.n { continue; }
        let mut inst2 = Instance { desc: h.inst.desc.clone(), n: n2, init: h.inst.init.clone(), overrides: vec![] };
        inst2.desc.asserts = vec![crate::genair::AssertD { kind: 0, col: 0, first: 0, stride: 0, values: vec![h.inst.init[0] % P64] }];
        if inst2.desc.periodic.iter().any(|p| p.len() > n2) { continue; }
        let mut o2 = h.opts.clone();
        if !fri_compatible(n2, o2.f, o2.rd) { o2.f = 2; o2.rd = 3; }
        while o2.q >= n2 * o2.b { o2.q /= 2; }
        o2.q = o2.q.max(1);
        let _ = rng;
        let Some((_, p2)) = prove(&inst2, &o2) else { out.count("cross-length:second-proof-failed"); continue; };
        let b2 = p2.to_bytes();
        let acc = Acc::Set(vec![o2.clone()]);
        out.count("mutation:cross-length");
        let (bb, pi, a) = (b2.clone(), h.pub_in.clone(), acc.clone());
        let mut got = String::new();
        out.case(&request_tagged("xlen", h, &acc, &b2), oracle, || { let r = run_real(&bb, pi, &a); got = r.clone(); r });
        out.count(&format!("answer:xlen:{}", got.chars().take(48).collect::<String>()));
    }
}

fn strip_periodic(e: &crate::genair::Ex) -> crate::genair::Ex {
    use crate::genair::Ex;
    match e {
        Ex::Per(_) => Ex::K(1),
        Ex::Add(a, b) => Ex::Add(Box::new(strip_periodic(a)), Box::new(strip_periodic(b))),
        Ex::Sub(a, b) => Ex::Sub(Box::new(strip_periodic(a)), Box::new(strip_periodic(b))),
        Ex::Mul(a, b) => Ex::Mul(Box::new(strip_periodic(a)), Box::new(strip_periodic(b))),
        other => other.clone(),
    }
}

/// a statement with a periodic column of more than 8 values, and a (parseable) proof announcing a
/// trace of 8 rows: made by the real prover for the description WITHOUT its periodic columns, which
/// has the same shape (for a trace shorter than a cycle the cycle does not contribute to the degree
/// bookkeeping); the verifier reaches get_periodic_column_polys before any commitment is checked
fn periodic_class(rng: &mut Rng, out: &mut Out, oracle: &str) {
    let mut found = None;
    for _ in 0..200 {
        let inst = gen_instance_shaped(rng, P64, 4, 5, true, true);
        if inst.desc.aux_width == 0 && inst.desc.width <= 4 && inst.desc.periodic.iter().any(|p| p.len() > 8) { found = Some(inst); break; }
    }
    let Some(inst) = found else { out.count("periodic-class:no-instance"); return; };
    let opts = gen_options(rng, &inst);
    let claimed: Vec<Vec<u128>> = inst.desc.asserts.iter().map(|a| a.values.clone()).collect();
    let pub_in = PubIn { desc: Arc::new(inst.desc.clone()), claimed, conv: c64 as fn(u128) -> B };
    let mut inst2 = Instance { desc: inst.desc.clone(), n: 8, init: inst.init.clone(), overrides: vec![] };
    inst2.desc.periodic = vec![];
    for t in inst2.desc.trans.iter_mut() { t.ex = strip_periodic(&t.ex); t.cycles = vec![]; }
    for g in inst2.desc.gen.iter_mut() { *g = strip_periodic(g); }
    inst2.desc.asserts = vec![crate::genair::AssertD { kind: 0, col: 0, first: 0, stride: 0, values: vec![inst.init[0] % P64] }];
    inst2.desc.exemptions = inst2.desc.exemptions.min(2);
    let mut o2 = opts.clone();
    if !fri_compatible(8, o2.f, o2.rd) { o2.f = 2; o2.rd = 3; }
    while o2.q >= 8 * o2.b { o2.q /= 2; }
    o2.q = o2.q.max(1);
    let Some((_, p2)) = prove(&inst2, &o2) else { out.count("periodic-class:second-proof-failed"); return; };
    // the verifier's AIR must announce the same number of exemptions for the shapes to agree
    let mut stmt = Instance { desc: inst.desc.clone(), n: inst.n, init: inst.init.clone(), overrides: inst.overrides.clone() };
    stmt.desc.exemptions = inst2.desc.exemptions;
    let pub_in = PubIn { desc: Arc::new(stmt.desc.clone()), ..pub_in };
    let h = Honest { bytes: p2.to_bytes(), inst: stmt, opts: o2.clone(), pub_in, proof: p2 };
    let acc = Acc::Set(vec![o2]);
    out.count("mutation:periodic-longer-than-trace");
    let (bb, pi, a) = (h.bytes.clone(), h.pub_in.clone(), acc.clone());
    let mut got = String::new();
    out.case(&request_tagged("xper", &h, &acc, &h.bytes), oracle, || { let r = run_real(&bb, pi, &a); got = r.clone(); r });
    out.count(&format!("answer:xper:{}", got.chars().take(48).collect::<String>()));
}

/// one of the four option bytes outside the seed changed to another valid value; `conj`: the
/// verifier accepts by MinConjecturedSecurity(0), otherwise by an option set containing both
fn option_bytes_class(out: &mut Out, h: &Honest, conj: bool) {
    let meta_len = h.bytes[4] as usize | ((h.bytes[5] as usize) << 8);
    let opt_pos = 6 + meta_len + 1 + h.bytes[6 + meta_len] as usize;
    for (i, name) in [(8usize, "partitions"), (9usize, "hash-rate"), (6usize, "constraint-batching"), (7usize, "deep-batching")] {
        let mut a2 = h.opts.clone();
        match i { 8 => a2.np = if a2.np == 1 { 2 } else { a2.np - 1 }, 9 => a2.hr = if a2.hr == 1 { 2 } else { a2.hr - 1 }, 6 => a2.bc = (a2.bc + 1) % 3, _ => a2.bd = (a2.bd + 1) % 3 }
        let enc = a2.build().to_bytes();
        let mut b = h.bytes.clone();
        b[opt_pos + i] = enc[i];
        let acc = if conj { Acc::Conj(0) } else { Acc::Set(vec![h.opts.clone(), a2.clone()]) };
        let same = Proof::from_bytes(&b).map(|p| p == h.proof).unwrap_or(false);
        out.count(&format!("mutation:optbyte:{name}:{}", if conj { "conj" } else { "two-sets" }));
        let (bb, pi, a, orc) = (b.clone(), h.pub_in.clone(), acc.clone(), if same { "ok" } else { "~^(err |PANIC )" });
        out.case(&request_tagged("optbyte", h, &acc, &b), orc, || run_real(&bb, pi, &a));
    }
}

fn run_mode(rng: &mut Rng, out: &mut Out, n: usize, mode: Mode) {
    install_hook();
    for it in 0..n { one(rng, out, mode, it); }
}

pub fn run(rng: &mut Rng, out: &mut Out, n: usize) { run_mode(rng, out, n, Mode::C05) }
pub fn run_c04(rng: &mut Rng, out: &mut Out, n: usize) { run_mode(rng, out, n, Mode::C04) }
pub fn run_c03(rng: &mut Rng, out: &mut Out, n: usize) { run_mode(rng, out, n, Mode::C03) }

// ---------------------------------------------------------------------------------------------
// `vfyx`: replays of the panics the model predicts (candidate defects; not part of any check)
// ---------------------------------------------------------------------------------------------
use winter_air::{AuxRandElements, PartitionOptions, ProofOptions, TraceInfo};
use winter_crypto::{Digest, RandomCoin, RandomCoinError};
use winter_prover::{
    matrix::ColMatrix, CompositionPoly, CompositionPolyTrace, ConstraintCompositionCoefficients, DefaultConstraintCommitment,
    DefaultConstraintEvaluator, DefaultTraceLde, StarkDomain, TracePolyTable,
};

/// `DefaultRandomCoin<VH>` without the two assertions of `draw_integers` (so that an honest-looking
/// proof can be produced for options whose query count is not below the LDE domain size)
pub struct LenientCoin { seed: TD, counter: u64 }

impl LenientCoin {
    fn next(&mut self) -> TD { self.counter += 1; VH::merge_with_int(self.seed, self.counter) }
}

impl RandomCoin for LenientCoin {
    type BaseField = B;
    type Hasher = VH;
    fn new(seed: &[B]) -> Self { LenientCoin { seed: VH::hash_elements(seed), counter: 0 } }
    fn reseed(&mut self, data: TD) { self.seed = VH::merge(&[self.seed, data]); self.counter = 0; }
    fn check_leading_zeros(&self, value: u64) -> u32 {
        let b = VH::merge_with_int(self.seed, value).as_bytes();
        u64::from_le_bytes(b[..8].try_into().unwrap()).trailing_zeros()
    }
    fn draw<E: FieldElement<BaseField = B>>(&mut self) -> Result<E, RandomCoinError> {
        for _ in 0..1000 {
            let v = self.next();
            if let Some(e) = E::from_random_bytes(&v.as_bytes()[..E::ELEMENT_BYTES]) { return Ok(e); }
        }
        Err(RandomCoinError::FailedToDrawFieldElement(1000))
    }
    fn draw_integers(&mut self, num_values: usize, domain_size: usize, nonce: u64) -> Result<Vec<usize>, RandomCoinError> {
        self.seed = VH::merge_with_int(self.seed, nonce);
        self.counter = 0;
        let mask = (domain_size - 1) as u64;
        let mut values = Vec::new();
        for _ in 0..1000 {
            if values.len() == num_values { break; }
            let b: [u8; 8] = self.next().as_bytes()[..8].try_into().unwrap();
            values.push((u64::from_le_bytes(b) & mask) as usize);
        }
        Ok(values)
    }
}

/// `GenProver<B, VH>` with the lenient coin
struct XProver { options: ProofOptions, pub_in: PubIn<B> }

impl Prover for XProver {
    type BaseField = B;
    type Air = GenAir<B>;
    type Trace = GenTrace<B>;
    type HashFn = VH;
    type VC = MerkleTree<VH>;
    type RandomCoin = LenientCoin;
    type TraceLde<E: FieldElement<BaseField = B>> = DefaultTraceLde<E, VH, MerkleTree<VH>>;
    type ConstraintCommitment<E: FieldElement<BaseField = B>> = DefaultConstraintCommitment<E, VH, MerkleTree<VH>>;
    type ConstraintEvaluator<'a, E: FieldElement<BaseField = B>> = DefaultConstraintEvaluator<'a, GenAir<B>, E>;

    fn get_pub_inputs(&self, _trace: &Self::Trace) -> PubIn<B> { self.pub_in.clone() }
    fn options(&self) -> &ProofOptions { &self.options }
    fn new_trace_lde<E: FieldElement<BaseField = B>>(&self, trace_info: &TraceInfo, main_trace: &ColMatrix<B>, domain: &StarkDomain<B>, partition_option: PartitionOptions) -> (Self::TraceLde<E>, TracePolyTable<E>) {
        DefaultTraceLde::new(trace_info, main_trace, domain, partition_option)
    }
    fn new_evaluator<'a, E: FieldElement<BaseField = B>>(&self, air: &'a GenAir<B>, aux_rand_elements: Option<AuxRandElements<E>>, composition_coefficients: ConstraintCompositionCoefficients<E>) -> Self::ConstraintEvaluator<'a, E> {
        DefaultConstraintEvaluator::new(air, aux_rand_elements, composition_coefficients)
    }
    fn build_constraint_commitment<E: FieldElement<BaseField = B>>(&self, composition_poly_trace: CompositionPolyTrace<E>, num_constraint_composition_columns: usize, domain: &StarkDomain<B>, partition_options: PartitionOptions) -> (Self::ConstraintCommitment<E>, CompositionPoly<E>) {
        DefaultConstraintCommitment::new(composition_poly_trace, num_constraint_composition_columns, domain, partition_options)
    }
}

fn prove_lenient(inst: &Instance, opts: &Opts) -> Option<(PubIn<B>, Proof)> {
    let claimed: Vec<Vec<u128>> = inst.desc.asserts.iter().map(|a| a.values.clone()).collect();
    let pub_in = PubIn { desc: Arc::new(inst.desc.clone()), claimed, conv: c64 as fn(u128) -> B };
    let cols = build_trace(inst, P64);
    let columns: Vec<Vec<B>> = cols.iter().map(|c| c.iter().map(|v| c64(*v)).collect()).collect();
    let options = opts.build();
    let pi = pub_in.clone();
    let res = std::panic::catch_unwind(std::panic::AssertUnwindSafe(move || {
        let trace = GenTrace::new(columns, 0, 0);
        XProver { options, pub_in: pi }.prove(trace)
    }));
    match res { Ok(Ok(proof)) => Some((pub_in, proof)), _ => None }
}

/// all classes found through the model in one place (for replays; every class is also part of a
/// checked stream)
pub fn run_x(rng: &mut Rng, out: &mut Out, n: usize) {
    install_hook();
    for it in 0..n {
        if let Some(h) = make_honest(rng, 4, 5) {
            modulus_length_class(out, &h, "~^err ");
            cross_length_class(rng, out, &h, "~^(ok|err )");
            option_bytes_class(out, &h, false);
            option_bytes_class(out, &h, true);
        }
        queries_domain_class(rng, out, 2 * it, "~^err ");
        periodic_class(rng, out, "~^(ok|err )");
        if let Some(h) = make_honest(rng, 3, 3) {
            let l = layout(&h);
            let mut b = h.bytes.clone();
            b[l.np_pos] = b[l.np_pos].wrapping_add(1);
            let acc = Acc::Set(vec![h.opts.clone()]);
            let same = Proof::from_bytes(&b).map(|p| p == h.proof).unwrap_or(false);
            out.count(&format!("mutation:fri-num-partitions:layers={}", h.bytes[l.nl_pos]));
            let (bb, pi, a, orc) = (b.clone(), h.pub_in.clone(), acc.clone(), if same { "ok" } else { "~^(err |PANIC )" });
            out.case(&request_tagged("npart", &h, &acc, &b), orc, || run_real(&bb, pi, &a));
        }
    }
}
