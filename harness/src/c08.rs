//! C08 (FRI accepts every evaluation vector of a low-degree polynomial) and C09 (FRI rejects
//! far-from-low-degree data and inconsistent openings).
//!
//! Implementation side: the REAL `FriProver` / `DefaultProverChannel` / `FriVerifier` /
//! `DefaultVerifierChannel`, `apply_drp`, `fold_positions`, `map_positions_to_indexes`,
//! `FriOptions::num_fri_layers`, over f64 / f62 / f128 and extensions, Blake3 / SHA3 / Rescue.
//! Request syntax: see lean/Wf/Drv/Fri.lean.  Lines with op `e2e` are ORACLE-ONLY (the model driver
//! answers the ideal verdict from the parameters); every other line is recomputed by the model
//! (`verify` lines: the whole verifier algebra on the transcript extracted from the real proof).
//! Oracles never call the code under test: folded polynomials / remainders are computed from the
//! generating coefficients in the independent modular arithmetic of `c10.rs`.
use winter_crypto::{
    hashers::{Blake3_256, Rp64_256, Sha3_256},
    DefaultRandomCoin, ElementHasher, Hasher, MerkleTree, RandomCoin,
};
use winter_fri::{
    folding::{apply_drp, fold_positions},
    utils::map_positions_to_indexes,
    DefaultProverChannel, DefaultVerifierChannel, FriOptions, FriProof, FriProver, FriVerifier,
    VerifierError,
};
use winter_math::{
    fft,
    fields::{f128, f62, f64, CubeExtension, QuadExtension},
    FieldElement, StarkField,
};
use winter_utils::{transpose_slice, Deserializable, Serializable, SliceReader};

use crate::c10::{o_add, o_mul, show, spec, Fld, Spec};
use crate::out::Out;
use crate::rng::Rng;

type OE = Vec<u128>;

// ---------------------------------------------------------------------------------------------
// helpers
// ---------------------------------------------------------------------------------------------
fn show_elems<E: Fld>(xs: &[E]) -> String {
    if xs.is_empty() { "-".to_string() } else { xs.iter().map(|x| show(&x.to_canon())).collect::<Vec<_>>().join(";") }
}
fn show_oelems(xs: &[OE]) -> String {
    if xs.is_empty() { "-".to_string() } else { xs.iter().map(|x| show(x)).collect::<Vec<_>>().join(";") }
}
fn show_nats(xs: &[usize]) -> String {
    if xs.is_empty() { "-".to_string() } else { xs.iter().map(|x| x.to_string()).collect::<Vec<_>>().join(",") }
}
/// answers use `empty` for the empty list (`-` means "no oracle" to the check driver)
fn ans(s: String) -> String { if s == "-" { "empty".to_string() } else { s } }

fn rand_coord(rng: &mut Rng, p: u128) -> u128 {
    let v = match rng.below(12) {
        0 => rng.below(3) as u128,
        1 => p - 1 - rng.below(3) as u128,
        2 => (p - 1) / 2 + rng.below(2) as u128,
        _ => rng.next128(),
    };
    v % p
}
fn rand_oelem(rng: &mut Rng, s: &Spec) -> OE { (0..s.deg).map(|_| rand_coord(rng, s.p)).collect() }
fn ozero(s: &Spec) -> OE { vec![0; s.deg] }
fn obase(s: &Spec, b: u128) -> OE { let mut v = vec![0; s.deg]; v[0] = b; v }
fn opow(s: &Spec, a: &OE, mut n: u64) -> OE {
    let mut r = obase(s, 1);
    let mut b = a.clone();
    while n > 0 { if n & 1 == 1 { r = o_mul(s, &r, &b); } b = o_mul(s, &b, &b); n >>= 1; }
    r
}
/// Σ c_k x^k (Horner, oracle arithmetic)
fn oeval(s: &Spec, c: &[OE], x: &OE) -> OE {
    let mut acc = ozero(s);
    for ck in c.iter().rev() { acc = o_add(s, &o_mul(s, &acc, x), ck); }
    acc
}
fn base_int<B: StarkField>(b: B) -> u128 {
    // canonical value of a base-field element through its serialisation (little endian)
    let bytes = b.to_bytes();
    let mut v = 0u128;
    for (i, x) in bytes.iter().enumerate() { v |= (*x as u128) << (8 * i); }
    v
}
fn root_of<B: StarkField>(size: usize) -> u128 { base_int(B::get_root_of_unity(size.ilog2())) }

fn drp_impl<E: Fld>(ff: usize, evals: &[E], alpha: E) -> Vec<E> {
    let off = E::BaseField::GENERATOR;
    match ff {
        2 => apply_drp(&transpose_slice::<E, 2>(evals), off, alpha),
        4 => apply_drp(&transpose_slice::<E, 4>(evals), off, alpha),
        8 => apply_drp(&transpose_slice::<E, 8>(evals), off, alpha),
        16 => apply_drp(&transpose_slice::<E, 16>(evals), off, alpha),
        _ => panic!("folding factor"),
    }
}

fn err_str(e: &VerifierError) -> String {
    match e {
        VerifierError::RandomCoinError(_) => "err RandomCoinError".to_string(),
        VerifierError::UnsupportedFoldingFactor(a) => format!("err UnsupportedFoldingFactor {a}"),
        VerifierError::NumPositionEvaluationMismatch(a, b) => format!("err NumPositionEvaluationMismatch {a} {b}"),
        VerifierError::LayerCommitmentMismatch => "err LayerCommitmentMismatch".to_string(),
        VerifierError::InvalidLayerFolding(a) => format!("err InvalidLayerFolding {a}"),
        VerifierError::RemainderCommitmentMismatch => "err RemainderCommitmentMismatch".to_string(),
        VerifierError::InvalidRemainderFolding => "err InvalidRemainderFolding".to_string(),
        VerifierError::RemainderDegreeNotValid => "err RemainderDegreeNotValid".to_string(),
        VerifierError::RemainderDegreeMismatch(a) => format!("err RemainderDegreeMismatch {a}"),
        VerifierError::DegreeTruncation(a, b, c) => format!("err DegreeTruncation {a} {b} {c}"),
    }
}
fn err_kind(s: &str) -> String { s.split(' ').take(2).collect::<Vec<_>>().join(":") }

// ---------------------------------------------------------------------------------------------
// real prover / verifier
// ---------------------------------------------------------------------------------------------
struct Honest<E: Fld, H: Hasher> {
    proof: FriProof,
    commitments: Vec<H::Digest>,
    positions: Vec<usize>,
    q_evals: Vec<E>,
}

/// the real prover on `evals`; positions are drawn from the channel's coin unless given
fn prove<E: Fld, H: ElementHasher<BaseField = E::BaseField>>(
    opts: &FriOptions, evals: &[E], nq: usize, custom: Option<&[usize]>,
) -> Honest<E, H> {
    let mut channel = DefaultProverChannel::<E, H, DefaultRandomCoin<H>>::new(evals.len(), nq);
    let mut prover = FriProver::<E, _, H, MerkleTree<H>>::new(opts.clone());
    prover.build_layers(&mut channel, evals.to_vec());
    let positions = match custom { Some(p) => p.to_vec(), None => channel.draw_query_positions(0) };
    let proof = prover.build_proof(&positions);
    let q_evals = positions.iter().map(|&p| evals[p]).collect();
    Honest { proof, commitments: channel.layer_commitments().to_vec(), positions, q_evals }
}

/// the real verifier; `Err(text)` for every kind of rejection (deserialisation or verification)
fn run_verifier<E: Fld, H: ElementHasher<BaseField = E::BaseField>>(
    proof: FriProof, commitments: &[H::Digest], q_evals: &[E], positions: &[usize], max_deg: usize,
    chan_domain: usize, opts: &FriOptions,
) -> Result<(), String> {
    let mut channel = DefaultVerifierChannel::<E, H, MerkleTree<H>>::new(
        proof, commitments.to_vec(), chan_domain, opts.folding_factor(),
    ).map_err(|_| "err Deserialization".to_string())?;
    let mut coin = DefaultRandomCoin::<H>::new(&[]);
    let verifier = FriVerifier::new(&mut channel, &mut coin, opts.clone(), max_deg).map_err(|e| err_str(&e))?;
    verifier.verify(&mut channel, q_evals, positions).map_err(|e| err_str(&e))
}

fn verdict(r: &Result<(), String>) -> String { if r.is_ok() { "accept".to_string() } else { "reject".to_string() } }
fn detailed(r: &Result<(), String>) -> String { match r { Ok(()) => "ok".to_string(), Err(e) => e.clone() } }

/// the layer challenges, replayed from the commitments exactly as prover and verifier draw them
fn replay_alphas<E: Fld, H: ElementHasher<BaseField = E::BaseField>>(commitments: &[H::Digest]) -> Vec<E> {
    let mut coin = DefaultRandomCoin::<H>::new(&[]);
    commitments.iter().map(|c| { coin.reseed(*c); coin.draw::<E>().expect("alpha") }).collect()
}

/// request line `verify` carrying the transcript the real verifier sees; `None` if the proof does
/// not parse.  `bad_layer`: the layer whose opened values were altered (its Merkle check fails)
#[allow(clippy::too_many_arguments)]
fn transcript_line<E: Fld, H: ElementHasher<BaseField = E::BaseField>>(
    opts: &FriOptions, max_deg: usize, proof: &FriProof, commitments: &[H::Digest], q_evals: &[E],
    positions: &[usize], chan_domain: usize, bad_layer: Option<usize>, rem_ok: bool,
) -> Option<String> {
    let alphas = replay_alphas::<E, H>(commitments);
    let (layers, _) = proof.clone().parse_layers::<E, H, MerkleTree<H>>(chan_domain, opts.folding_factor()).ok()?;
    let remainder = proof.parse_remainder::<E>().ok()?;
    let layers_s = if layers.is_empty() { "-".to_string() } else {
        layers.iter().enumerate().map(|(i, l)| format!("{}:{}", if bad_layer == Some(i) { 0 } else { 1 }, show_elems(l))).collect::<Vec<_>>().join("|")
    };
    Some(format!(
        "c08 {} verify {} {} {} {} {} {} {} {} {} {} {}",
        E::NAME, opts.blowup_factor(), opts.folding_factor(), opts.remainder_max_degree(), max_deg,
        proof.num_partitions(), show_nats(positions), show_elems(q_evals), show_elems(&alphas), layers_s,
        show_elems(&remainder), if rem_ok { 1 } else { 0 }
    ))
}

// ---------------------------------------------------------------------------------------------
// byte-level proof surgery (FriProof::new / FriProofLayer::new are crate-private)
// ---------------------------------------------------------------------------------------------
/// (offset, length) of every layer's value bytes and of the remainder bytes inside `FriProof::to_bytes`
struct Layout { values: Vec<(usize, usize)>, paths: Vec<(usize, usize)>, remainder: (usize, usize) }

fn layout(bytes: &[u8]) -> Layout {
    let n = bytes[0] as usize;
    let mut pos = 1;
    let (mut values, mut paths) = (vec![], vec![]);
    let rd32 = |p: usize| u32::from_le_bytes(bytes[p..p + 4].try_into().unwrap()) as usize;
    for _ in 0..n {
        let l = rd32(pos); values.push((pos + 4, l)); pos += 4 + l;
        let l = rd32(pos); paths.push((pos + 4, l)); pos += 4 + l;
    }
    let l = u16::from_le_bytes(bytes[pos..pos + 2].try_into().unwrap()) as usize;
    Layout { values, paths, remainder: (pos + 2, l) }
}
fn read_elem<E: Fld>(bytes: &[u8]) -> E { E::read_from(&mut SliceReader::new(bytes)).expect("element") }
fn write_elem<E: Fld>(bytes: &mut [u8], e: E) { bytes.copy_from_slice(&e.to_bytes()); }

// ---------------------------------------------------------------------------------------------
// polynomials and evaluations
// ---------------------------------------------------------------------------------------------
fn rand_elem<E: Fld>(rng: &mut Rng, s: &Spec) -> E { E::from_canon(&rand_oelem(rng, s)) }
fn nonzero_elem<E: Fld>(rng: &mut Rng, s: &Spec) -> E {
    loop { let e: E = rand_elem(rng, s); if e != E::ZERO { return e; } }
}
/// coefficients (lowest first) of a polynomial of degree EXACTLY `deg` (`deg = 0, zero = true`: the zero polynomial)
fn poly_of_degree<E: Fld>(rng: &mut Rng, s: &Spec, deg: usize, shape: u64) -> Vec<E> {
    let mut c: Vec<E> = match shape {
        0 => (0..=deg).map(|_| rand_elem(rng, s)).collect(),                       // dense
        1 => (0..=deg).map(|k| if k == deg { E::ONE } else { E::ZERO }).collect(), // monomial
        _ => (0..=deg).map(|_| if rng.chance(1, 4) { rand_elem(rng, s) } else { E::ZERO }).collect(), // sparse
    };
    if c[deg] == E::ZERO { c[deg] = nonzero_elem(rng, s); }
    c
}
/// evaluations over the LDE domain exactly as in fri/src/prover/tests.rs (`fft::evaluate_poly`)
fn evaluate<E: Fld>(coeffs: &[E], domain: usize) -> Vec<E> {
    let mut p = coeffs.to_vec();
    p.resize(domain, E::ZERO);
    let twiddles = fft::get_twiddles::<E::BaseField>(domain);
    fft::evaluate_poly(&mut p, &twiddles);
    p
}

#[derive(Clone, Debug)]
struct Cfg { blowup: usize, ff: usize, rmd: usize, logd: u32 }
impl Cfg {
    fn domain(&self) -> usize { 1 << self.logd }
    fn bound_plus_1(&self) -> usize { self.domain() / self.blowup }
    fn opts(&self) -> FriOptions { FriOptions::new(self.blowup, self.ff, self.rmd) }
    /// can the honest prover run and does the degree bookkeeping divide evenly? (power-of-two arithmetic)
    fn compatible(&self) -> bool {
        let (mut d, mut m) = (self.domain(), self.bound_plus_1());
        let maxrem = (self.rmd + 1) * self.blowup;
        while d > maxrem {
            if d % self.ff != 0 || m % self.ff != 0 { return false; }
            d /= self.ff; m /= self.ff;
        }
        d >= 2 && d / self.blowup >= 1
    }
}
const RMDS: [usize; 9] = [0, 1, 3, 7, 15, 31, 63, 127, 255];
fn gen_cfg(rng: &mut Rng, max_logd: u32, want_compatible: bool) -> Cfg {
    loop {
        let blowup = 1usize << rng.range(1, 4);
        let ff = 1usize << rng.range(1, 4);
        let rmd = *rng.pick(&RMDS);
        let lo = 3u32.max(blowup.trailing_zeros());
        let logd = match rng.below(4) { 0 => lo + rng.below(3) as u32, 1 => max_logd - rng.below(2) as u32, _ => rng.range(lo as u64, max_logd as u64) as u32 };
        let c = Cfg { blowup, ff, rmd, logd: logd.min(max_logd).max(lo) };
        if c.compatible() == want_compatible { return c; }
    }
}
/// a position multiset with a deliberate collision: two listed positions (indexes `pair.0 <
/// pair.1` of the list) that fall into the SAME opened row at folding depth `depth` (0 = already
/// in the first layer: `p = p' mod domain/N`; 1, 2 = only after one / two folds), or the same
/// position listed twice (`dup`); plus unrelated positions, partners in random order
struct Collide { positions: Vec<usize>, pair: (usize, usize), depth: usize, kind: &'static str }

fn collision_positions(rng: &mut Rng, c: &Cfg, kind_sel: u64) -> Collide {
    let d = c.domain();
    let n = c.ff;
    let layers = c.opts().num_fri_layers(d);
    let mut depth = match kind_sel % 4 { 0 | 1 => 0, 2 => 1, _ => 2 };
    while depth > 0 && layers < depth + 1 { depth -= 1; }
    // row length at that depth: domain / N^(depth+1); a domain smaller than the folding factor
    // (no layer is ever built on it) has no cosets to collide in: only duplicates are possible
    let mut row_len = d;
    for _ in 0..=depth { row_len /= n; }
    let dup_only = kind_sel % 4 == 0 || row_len == 0 || d / row_len.max(1) < 2;
    let kind: &'static str = match (dup_only, depth) { (true, _) => "pos:collide-dup", (_, 0) => "pos:collide-0", (_, 1) => "pos:collide-1", _ => "pos:collide-2" };
    let a = rng.below(d as u64) as usize;
    let mut partners: Vec<usize> = vec![];
    if dup_only {
        partners.push(a);
        if rng.chance(1, 3) { partners.push(a); }
    } else {
        let span = d / row_len; // N^(depth+1) residues
        let want = if depth == 0 { 1 + rng.below((n as u64 - 1).min(3)) as usize } else { 1 };
        let mut tries = 0;
        while partners.len() < want && tries < 100 {
            tries += 1;
            let k = 1 + rng.below(span as u64 - 1) as usize;
            if depth > 0 && k % n == 0 { continue; }
            let b = (a + k * row_len) % d;
            if b != a && !partners.contains(&b) { partners.push(b); }
        }
        if partners.is_empty() { partners.push(a); }
    }
    let mut group = vec![a];
    group.extend(partners);
    // random order inside the group, unrelated positions around and between
    for i in (1..group.len()).rev() { let j = rng.below(i as u64 + 1) as usize; group.swap(i, j); }
    let mut positions: Vec<usize> = vec![];
    let mut idxs = vec![];
    for g in group {
        for _ in 0..rng.below(3) { positions.push(rng.below(d as u64) as usize); }
        idxs.push(positions.len());
        positions.push(g);
    }
    for _ in 0..rng.below(3) { positions.push(rng.below(d as u64) as usize); }
    let last = *idxs.last().unwrap();
    Collide { positions, pair: (idxs[0], last), depth, kind }
}

/// query positions: drawn by the channel (None) or an explicit multiset
fn gen_positions(rng: &mut Rng, c: &Cfg) -> (Option<Vec<usize>>, usize, &'static str) {
    let d = c.domain();
    let nq_max = (d - 1).min(48);
    match rng.below(10) {
        0 => { let p = rng.below(d as u64) as usize; (Some(vec![p; rng.range(2, 5) as usize]), 1, "pos:same") },
        1 => { // a whole coset of the first folding plus repeats
            let p = rng.below((d / c.ff) as u64) as usize;
            let mut v: Vec<usize> = (0..c.ff).map(|j| p + j * (d / c.ff)).collect();
            v.push(p); v.reverse();
            (Some(v), 1, "pos:coset") },
        2 => { let mut v = vec![0, d - 1, d / 2, d / 2 - 1, 0, d - 1]; v.truncate(rng.range(1, 6) as usize); (Some(v), 1, "pos:boundary") },
        3 if d <= 64 => (Some((0..d).rev().collect()), 1, "pos:all"),
        4 => { // random multiset with many duplicates
            let k = rng.range(1, 6) as usize;
            let pool: Vec<usize> = (0..k).map(|_| rng.below(d as u64) as usize).collect();
            (Some((0..rng.range(1, 24)).map(|_| *rng.pick(&pool)).collect()), 1, "pos:dups") },
        5 | 6 => { let k = rng.below(4); let cl = collision_positions(rng, c, k); (Some(cl.positions), 1, cl.kind) },
        _ => (None, rng.range(1, nq_max as u64) as usize, "pos:drawn"),
    }
}

fn req_e2e<E: Fld>(fam: &str, hname: &str, c: &Cfg, max_deg: usize, deg: Option<usize>, class: &str, detail: &str) -> String {
    let _ = fam;
    // parameter tuples on which the domain cannot be folded in whole steps down to the remainder
    // size go under their own op name (recorded finding: the honest prover panics on them)
    let head = if c.compatible() { format!("c08 {} e2e", E::NAME) } else { format!("c08 e2e_incompat {}", E::NAME) };
    format!("{head} {} {} {} {} {} {} {} {} {}", c.blowup, c.ff, c.rmd, c.logd, max_deg,
        match deg { Some(d) => d.to_string(), None => "none".to_string() }, class, hname, detail)
}

// ---------------------------------------------------------------------------------------------
// C08: honest runs
// ---------------------------------------------------------------------------------------------
fn c08_case<E: Fld, H: ElementHasher<BaseField = E::BaseField>>(rng: &mut Rng, out: &mut Out, hname: &str, c: &Cfg, case_no: usize, force_collide: Option<u64>) {
    let s = spec(E::NAME);
    let bound = c.bound_plus_1() - 1;
    let (deg, zero, dclass) = match rng.below(9) {
        0 | 1 | 2 => (bound, false, "deg:bound"),
        3 => (bound.saturating_sub(1), false, "deg:bound-1"),
        4 => (bound / 2, false, "deg:half"),
        5 => (rng.below(bound as u64 + 1) as usize, false, "deg:random"),
        6 => (1.min(bound), false, "deg:linear"),
        7 => (0, false, "deg:const"),
        _ => (0, true, "deg:zero"),
    };
    let shape = rng.below(3);
    let coeffs: Vec<E> = if zero { vec![E::ZERO] } else { poly_of_degree(rng, &s, deg, shape) };
    let (custom, nq, pclass) = match force_collide {
        Some(k) => { let cl = collision_positions(rng, c, k); (Some(cl.positions), 1, cl.kind) },
        None => gen_positions(rng, c),
    };
    out.count(dclass); out.count(pclass);
    out.count(&format!("field:{}", E::NAME)); out.count(&format!("hash:{hname}"));
    out.count(&format!("ff:{}", c.ff)); out.count(&format!("rmd:{}", c.rmd)); out.count(&format!("blowup:{}", c.blowup));
    out.count(&format!("logd:{}", c.logd));
    out.count(if c.compatible() { "params:compatible" } else { "params:incompatible" });
    let opts = c.opts();
    let domain = c.domain();
    let detail = format!("{dclass} {pclass} #{case_no} {}", match &custom { Some(p) => show_nats(p), None => format!("nq={nq}") });
    let req = req_e2e::<E>("c08", hname, c, bound, Some(deg), "honest", &detail);
    let mut small: Option<(String, String)> = None;
    let want_transcript = c.logd <= 8 && c.compatible();
    out.case(&req, "accept", || {
        let evals = evaluate(&coeffs, domain);
        let h = prove::<E, H>(&opts, &evals, nq, custom.as_deref());
        let bytes = h.proof.to_bytes();
        let rt = match FriProof::read_from_bytes(&bytes) { Ok(p) => p, Err(_) => return "roundtrip-error".to_string() };
        if rt != h.proof || rt.to_bytes() != bytes { return "roundtrip-mismatch".to_string(); }
        let r1 = run_verifier::<E, H>(h.proof.clone(), &h.commitments, &h.q_evals, &h.positions, bound, domain, &opts);
        let r2 = run_verifier::<E, H>(rt.clone(), &h.commitments, &h.q_evals, &h.positions, bound, domain, &opts);
        if r1 != r2 { return format!("verdict-differs-after-roundtrip {} / {}", detailed(&r1), detailed(&r2)); }
        if want_transcript && h.positions.len() <= 24 {
            if let Some(l) = transcript_line::<E, H>(&opts, bound, &rt, &h.commitments, &h.q_evals, &h.positions, domain, None, true) {
                small = Some((l, detailed(&r2)));
            }
        }
        verdict(&r2)
    });
    if let Some((line, got)) = small {
        out.count("transcript");
        out.case(&line, "ok", || got);
    }
}

// ---------------------------------------------------------------------------------------------
// C09: bad data, understated bounds, tampered transcripts
// ---------------------------------------------------------------------------------------------
fn c09_case<E: Fld, H: ElementHasher<BaseField = E::BaseField>>(rng: &mut Rng, out: &mut Out, hname: &str, c: &Cfg, case_no: usize, class_sel: u64) {
    let s = spec(E::NAME);
    let domain = c.domain();
    let bound = c.bound_plus_1() - 1;
    let opts = c.opts();
    let nq = (domain - 1).min(rng.range(24, 40) as usize);
    out.count(&format!("field:{}", E::NAME)); out.count(&format!("hash:{hname}"));
    out.count(&format!("ff:{}", c.ff)); out.count(&format!("rmd:{}", c.rmd));
    let small = c.logd <= 8;
    // (class, evaluations' true degree or None, declared bound, channel domain)
    match class_sel {
        // ---- evaluations not from a polynomial within the bound, honest prover --------------------
        0..=3 => {
            let (deg, class): (Option<usize>, &str) = match class_sel {
                0 => (Some(bound + 1), "far:deg+1"),
                1 => (Some((2 * bound).max(bound + 1).min(domain - 1)), "far:deg2x"),
                2 => (Some(domain - 1), "far:degmax"),
                _ => (None, "far:random"),
            };
            out.count(class);
            let shape = rng.below(2) * 2;
            let evals: Vec<E> = match deg {
                Some(d) => evaluate(&poly_of_degree::<E>(rng, &s, d, shape), domain),
                None => (0..domain).map(|_| rand_elem(rng, &s)).collect(),
            };
            let req = req_e2e::<E>("c09", hname, c, bound, deg, class, &format!("#{case_no} nq={nq}"));
            let mut tr: Option<(String, String)> = None;
            out.case(&req, "reject", || {
                let h = prove::<E, H>(&opts, &evals, nq, None);
                let rt = match FriProof::read_from_bytes(&h.proof.to_bytes()) { Ok(p) => p, Err(_) => return "reject".to_string() };
                let r = run_verifier::<E, H>(rt.clone(), &h.commitments, &h.q_evals, &h.positions, bound, domain, &opts);
                if small { if let Some(l) = transcript_line::<E, H>(&opts, bound, &rt, &h.commitments, &h.q_evals, &h.positions, domain, None, true) { tr = Some((l, detailed(&r))); } }
                verdict(&r)
            });
            if let Some((l, got)) = tr { out.count(&err_kind(&got)); out.count("transcript"); out.case(&l, "~^err ", || got); }
        },
        // ---- declared bound below the true degree ---------------------------------------------------
        4..=6 => {
            let deg = bound; // polynomial of degree exactly the true bound
            let (max_deg, class): (usize, &str) = match class_sel {
                4 => (bound.saturating_sub(1 + rng.below(9) as usize), "under:few"),
                5 => ((3 * (bound + 1) / 4).saturating_sub(1), "under:3/4"),
                _ => (((bound + 1) / 2).saturating_sub(1), "under:half"),
            };
            if max_deg >= deg { return; }
            out.count(class);
            let evals = evaluate(&poly_of_degree::<E>(rng, &s, deg, 0), domain);
            // the channel is built either for the true domain or for the domain implied by the claim
            let claimed_domain = (max_deg + 1).next_power_of_two() * c.blowup;
            let chan_domain = if rng.chance(1, 2) { domain } else { claimed_domain };
            let req = req_e2e::<E>("c09", hname, c, max_deg, Some(deg), class, &format!("#{case_no} nq={nq} chan={chan_domain}"));
            let mut tr: Option<(String, String)> = None;
            out.case(&req, "reject", || {
                let h = prove::<E, H>(&opts, &evals, nq, None);
                let r = run_verifier::<E, H>(h.proof.clone(), &h.commitments, &h.q_evals, &h.positions, max_deg, chan_domain, &opts);
                if small && claimed_domain == domain && chan_domain == domain {
                    if let Some(l) = transcript_line::<E, H>(&opts, max_deg, &h.proof, &h.commitments, &h.q_evals, &h.positions, domain, None, true) { tr = Some((l, detailed(&r))); }
                }
                if let Err(e) = &r { if e == "err Deserialization" { return "reject".to_string(); } }
                verdict(&r)
            });
            if let Some((l, got)) = tr { out.count(&err_kind(&got)); out.count("transcript"); out.case(&l, "~^err ", || got); }
        },
        // ---- honest transcript of a low-degree polynomial, then tampered ----------------------------
        _ => {
            let deg = if rng.chance(1, 2) { bound } else { rng.below(bound as u64 + 1) as usize };
            let evals = evaluate(&poly_of_degree::<E>(rng, &s, deg, 0), domain);
            let class: &str = match class_sel { 7 => "xlayer", 8 => "xrem", 9 => "xadapt", 10 => "xdrop", 11 => "xextra", 12 => "xeval", _ => "xlayerc" };
            // the adaptive attack needs fewer distinct last-layer positions than remainder coefficients
            let nq = if class == "xadapt" { rng.range(1, 6) as usize } else { nq };
            let mut detail = String::new();
            let mut tr: Option<(String, String)> = None;
            let mut applicable = true;
            let mut got_main = String::new();
            // the honest transcript is produced first (outside the observed closure: it is C08's subject)
            // query positions: drawn by the channel, or (xeval / xlayerc) a set with a deliberate collision
            let ksel = rng.below(4);
            let collide: Option<Collide> = match class {
                "xlayerc" => Some(collision_positions(rng, c, ksel)),
                "xeval" if case_no % 3 != 0 => Some(collision_positions(rng, c, ksel)),
                _ => None,
            };
            let custom: Option<Vec<usize>> = collide.as_ref().map(|cl| cl.positions.clone());
            let h = match std::panic::catch_unwind(std::panic::AssertUnwindSafe(|| prove::<E, H>(&opts, &evals, nq, custom.as_deref()))) { Ok(h) => h, Err(_) => return };
            let mut q_evals = h.q_evals.clone();
            let honest_ok = run_verifier::<E, H>(h.proof.clone(), &h.commitments, &h.q_evals, &h.positions, bound, domain, &opts).is_ok();
            if !honest_ok { return; }
            let mut bytes = h.proof.to_bytes();
            let lay = layout(&bytes);
            let eb = E::ELEMENT_BYTES;
            let (mut bad_layer, mut rem_ok) = (None, true);
            match class {
                "xlayer" => {
                    if lay.values.is_empty() { applicable = false; } else {
                        let l = rng.below(lay.values.len() as u64) as usize;
                        let (off, len) = lay.values[l];
                        let k = rng.below((len / eb) as u64) as usize;
                        let e: E = read_elem(&bytes[off + k * eb..off + (k + 1) * eb]);
                        let delta: E = if rng.chance(1, 2) { E::ONE } else { nonzero_elem(rng, &s) };
                        write_elem(&mut bytes[off + k * eb..off + (k + 1) * eb], e + delta);
                        bad_layer = Some(l);
                        detail = format!("layer={l} elem={k}");
                    }
                },
                "xrem" => {
                    let (off, len) = lay.remainder;
                    let k = rng.below((len / eb) as u64) as usize;
                    let e: E = read_elem(&bytes[off + k * eb..off + (k + 1) * eb]);
                    let delta: E = if rng.chance(1, 2) { E::ONE } else { nonzero_elem(rng, &s) };
                    write_elem(&mut bytes[off + k * eb..off + (k + 1) * eb], e + delta);
                    rem_ok = false;
                    detail = format!("coeff={k}");
                },
                "xadapt" => {
                    // positions of the last layer as the verifier folds them
                    let mut pos = h.positions.clone();
                    let mut d = domain;
                    for _ in 0..opts.num_fri_layers(domain) { pos = fold_positions(&pos, d, c.ff); d /= c.ff; }
                    let (off, len) = lay.remainder;
                    let r = len / eb;
                    if d < 2 || pos.len() >= r { applicable = false; } else {
                        // h'(x) = h(x) + k * prod_{p in pos} (x - x_p): agrees with h at every queried point, degree < r
                        let g = E::BaseField::get_root_of_unity(d.ilog2());
                        let offset = E::BaseField::GENERATOR;
                        let mut z: Vec<E> = vec![E::ONE]; // lowest degree first
                        for &p in &pos {
                            let xp = E::from(offset * g.exp_vartime((p as u64).into()));
                            let mut nz = vec![E::ZERO; z.len() + 1];
                            for (i, zc) in z.iter().enumerate() { nz[i + 1] += *zc; nz[i] -= *zc * xp; }
                            z = nz;
                        }
                        let k: E = nonzero_elem(rng, &s);
                        // remainder is stored highest degree first: coefficient of x^j sits at index r-1-j
                        for (j, zc) in z.iter().enumerate() {
                            let idx = r - 1 - j;
                            let e: E = read_elem(&bytes[off + idx * eb..off + (idx + 1) * eb]);
                            write_elem(&mut bytes[off + idx * eb..off + (idx + 1) * eb], e + k * *zc);
                        }
                        rem_ok = false;
                        detail = format!("lastpos={} remsize={r}", pos.len());
                    }
                },
                "xeval" => {
                    // ONE caller-supplied query evaluation is wrong; with a collision set: the
                    // later-listed or the earlier-listed partner of the colliding pair
                    let (idx, which) = match (&collide, rng.below(5)) {
                        (Some(cl), 0 | 1) => (cl.pair.1, "later"),
                        (Some(cl), 2) => (cl.pair.0, "earlier"),
                        (_, 3) => (0, "first"),
                        (_, 4) => (q_evals.len() - 1, "last"),
                        _ => (rng.below(q_evals.len() as u64) as usize, "random"),
                    };
                    let delta: E = if rng.chance(1, 2) { E::ONE } else { nonzero_elem(rng, &s) };
                    q_evals[idx] += delta;
                    detail = format!("{} idx={idx}:{which} pos={}", collide.as_ref().map_or("pos:drawn", |cl| cl.kind), show_nats(&h.positions));
                },
                "xlayerc" => {
                    // the opened layer value belonging to ONE partner of the colliding pair is altered,
                    // in the layer where the two partners share a row
                    let cl = collide.as_ref().unwrap();
                    if lay.values.len() <= cl.depth { applicable = false; } else {
                        let which = if rng.chance(1, 2) { "later" } else { "earlier" };
                        let target = h.positions[if which == "later" { cl.pair.1 } else { cl.pair.0 }];
                        let (mut pos, mut dd) = (h.positions.clone(), domain);
                        for _ in 0..cl.depth { pos = fold_positions(&pos, dd, c.ff); dd /= c.ff; }
                        let row_len = dd / c.ff;
                        let folded = fold_positions(&pos, dd, c.ff);
                        let pt = target % dd;
                        let row = folded.iter().position(|&v| v == pt % row_len).unwrap();
                        let k = row * c.ff + pt / row_len;
                        let (off, _) = lay.values[cl.depth];
                        let e: E = read_elem(&bytes[off + k * eb..off + (k + 1) * eb]);
                        let delta: E = if rng.chance(1, 2) { E::ONE } else { nonzero_elem(rng, &s) };
                        write_elem(&mut bytes[off + k * eb..off + (k + 1) * eb], e + delta);
                        bad_layer = Some(cl.depth);
                        detail = format!("{} layer={} row={row} col={} partner={which} pos={}", cl.kind, cl.depth, pt / row_len, show_nats(&h.positions));
                    }
                },
                "xextra" => {
                    // repeat the last layer of the proof (one layer more than commitments allow)
                    if lay.values.is_empty() { applicable = false; } else {
                        let n = lay.values.len();
                        let from = lay.values[n - 1].0 - 4;
                        let to = lay.paths[n - 1].0 + lay.paths[n - 1].1;
                        let dup: Vec<u8> = bytes[from..to].to_vec();
                        let tail = bytes.split_off(to);
                        bytes.extend_from_slice(&dup);
                        bytes.extend_from_slice(&tail);
                        bytes[0] = (n + 1) as u8;
                        detail = format!("layers={}->{}", n, n + 1);
                    }
                },
                _ => {
                    // drop the last layer of the proof (the verifier still expects it)
                    if lay.values.is_empty() { applicable = false; } else {
                        let n = lay.values.len();
                        let cut_from = lay.values[n - 1].0 - 4;
                        let cut_to = lay.paths[n - 1].0 + lay.paths[n - 1].1;
                        bytes.drain(cut_from..cut_to);
                        bytes[0] = (n - 1) as u8;
                        detail = format!("layers={}->{}", n, n - 1);
                    }
                },
            }
            if !applicable { return; }
            out.count(class);
            if let Some(cl) = &collide { out.count(&format!("{class}:{}", cl.kind)); }
            out.count(&format!("{class}:ff{}", c.ff));
            let req = req_e2e::<E>("c09", hname, c, bound, Some(deg), class, &format!("#{case_no} nq={nq} {detail}"));
            out.case(&req, "reject", || {
                let proof = match FriProof::read_from_bytes(&bytes) { Ok(p) => p, Err(_) => { got_main = "err Deserialization".to_string(); return "reject".to_string(); } };
                let r = run_verifier::<E, H>(proof.clone(), &h.commitments, &q_evals, &h.positions, bound, domain, &opts);
                got_main = detailed(&r);
                if small {
                    if let Some(l) = transcript_line::<E, H>(&opts, bound, &proof, &h.commitments, &q_evals, &h.positions, domain, bad_layer, rem_ok) { tr = Some((l, detailed(&r))); }
                }
                verdict(&r)
            });
            out.count(&format!("{class}:{}", err_kind(&got_main)));
            if class == "xadapt" {
                // sanity of the attack itself: without the commitment comparison the substituted
                // remainder is consistent with every queried point (checked by the model on the
                // transcript with remainderOk forced to 1 -> `ok`)
                if let Ok(proof) = FriProof::read_from_bytes(&bytes) {
                    if small {
                        if let Some(l) = transcript_line::<E, H>(&opts, bound, &proof, &h.commitments, &q_evals, &h.positions, domain, None, true) {
                            out.count("xadapt:consistent-at-queries");
                            // implementation column: the attack is accepted by every check except the hash comparison
                            let expect_ok = got_main == "err RemainderCommitmentMismatch";
                            out.case(&l, "ok", || if expect_ok { "ok".to_string() } else { format!("unexpected {got_main}") });
                        }
                    }
                }
            }
            if let Some((l, got)) = tr { out.count("transcript"); out.case(&l, "~^err ", || got); }
        },
    }
}

// ---------------------------------------------------------------------------------------------
// function-level correspondence
// ---------------------------------------------------------------------------------------------
fn functions_index(rng: &mut Rng, out: &mut Out, n: usize) {
    // fold_positions
    for it in 0..(40 * n.max(1)).min(4000) {
        let logd = rng.range(0, 14) as u32;
        let d = match rng.below(10) { 0 => rng.range(0, 40) as usize, _ => 1usize << logd };
        let ff = match rng.below(12) { 0 => 0, 1 => 1, 2 => 3, _ => 1usize << rng.range(1, 4) };
        let target = if ff == 0 { 0 } else { d / ff };
        let k = match it % 5 { 0 => 0, 1 => 1, _ => rng.range(1, 40) as usize };
        let span = match rng.below(3) { 0 => d.max(1), 1 => (2 * d).max(1), _ => target.max(1) * 2 };
        let pool: Vec<usize> = (0..rng.range(1, 8)).map(|_| rng.below(span as u64) as usize).collect();
        let ps: Vec<usize> = (0..k).map(|_| if rng.chance(1, 2) { *rng.pick(&pool) } else { rng.below(span as u64) as usize }).collect();
        // ORACLE: residues modulo the target size, first occurrences kept
        let oracle = if ff == 0 || (target == 0 && !ps.is_empty()) { "abort".to_string() } else {
            let mut seen = std::collections::BTreeSet::new();
            let mut r = vec![];
            for p in &ps { let q = p % target; if seen.insert(q) { r.push(q); } }
            ans(show_nats(&r))
        };
        out.count("foldpos");
        out.case(&format!("c08 foldpos {d} {ff} {}", show_nats(&ps)), &oracle, || ans(show_nats(&fold_positions(&ps, d, ff))));
    }
    // map_positions_to_indexes
    for it in 0..(30 * n.max(1)).min(3000) {
        let logd = rng.range(1, 12) as u32;
        let d = 1usize << logd;
        let ff = match rng.below(12) { 0 => 0, _ => 1usize << rng.range(1, 4) };
        let np = match rng.below(10) { 0 => 0, 1 => 3, 2 | 3 => 1, _ => 1usize << rng.range(0, 5) };
        let target = if ff == 0 { 0 } else { d / ff };
        let k = match it % 4 { 0 => 0, _ => rng.range(1, 24) as usize };
        let ps: Vec<usize> = (0..k).map(|_| rng.below(target.max(1) as u64) as usize).collect();
        // ORACLE: explicit table of the documented layout (partition p holds rows p, p+np, p+2np, ..)
        let oracle = if np == 1 { ans(show_nats(&ps)) } else if ff == 0 || np == 0 { "abort".to_string() } else {
            let psize = target / np;
            let mut table = std::collections::BTreeMap::new();
            for part in 0..np { for local in 0..(target / np + 2) { table.insert(local * np + part, part * psize + local); } }
            ans(show_nats(&ps.iter().map(|p| table[p]).collect::<Vec<_>>()))
        };
        out.count("mapidx");
        out.case(&format!("c08 mapidx {d} {ff} {np} {}", show_nats(&ps)), &oracle, || ans(show_nats(&map_positions_to_indexes(&ps, d, ff, np))));
    }
    // num_fri_layers: every option combination x every power-of-two domain (and some others)
    for &blowup in &[1usize, 2, 4, 8, 16, 32] {
        for &ff in &[2usize, 4, 8, 16] {
            for &rmd in &[0usize, 1, 2, 3, 7, 15, 31, 63, 127, 255, 256] {
                let mut doms: Vec<usize> = (0..=20).map(|k| 1usize << k).collect();
                doms.extend([0, 3, 100, (rmd + 1) * blowup, (rmd + 1) * blowup + 1, (rmd + 1) * blowup * ff, (rmd + 1) * blowup * ff + 1]);
                for d in doms {
                    // ORACLE: least k with d / ff^k <= (rmd+1)*blowup (iterated floor division)
                    let maxrem = (rmd + 1) * blowup;
                    let mut k = 0; let mut x = d; while x > maxrem { x /= ff; k += 1; }
                    out.count("nlayers");
                    out.case(&format!("c08 nlayers {blowup} {ff} {rmd} {d}"), &k.to_string(), || FriOptions::new(blowup, ff, rmd).num_fri_layers(d).to_string());
                }
            }
        }
    }
}

fn functions_field<E: Fld>(rng: &mut Rng, out: &mut Out, n: usize) {
    let s = spec(E::NAME);
    let gen = base_int(E::BaseField::GENERATOR);
    // apply_drp: both the prover's and the verifier's way of folding, against the coefficient-form oracle
    for &ff in &[2usize, 4, 8, 16] {
        for &rows in &[1usize, 2, 4, 8] {
            for rep in 0..(if n > 100 { 3 } else { 1 }) {
                let len = ff * rows;
                let deg_kind = rng.below(4);
                let ncoef = match deg_kind { 0 => len, 1 => (len / 2).max(1), 2 => 1, _ => rng.range(1, len as u64) as usize };
                let mut coeffs: Vec<OE> = (0..ncoef).map(|_| rand_oelem(rng, &s)).collect();
                coeffs.resize(len, ozero(&s));
                let alpha = match rng.below(6) { 0 => ozero(&s), 1 => obase(&s, 1), _ => rand_oelem(rng, &s) };
                let g = obase(&s, root_of::<E::BaseField>(len));
                let off = obase(&s, gen);
                // evaluations over offset * <g> from the coefficients (oracle arithmetic)
                let xs: Vec<OE> = (0..len).map(|i| o_mul(&s, &off, &opow(&s, &g, i as u64))).collect();
                let evals: Vec<OE> = xs.iter().map(|x| oeval(&s, &coeffs, x)).collect();
                // ORACLE: f'(y) = sum_i alpha^i f_i(y) with f(x) = sum_i x^i f_i(x^N), evaluated at x^N
                let folded: Vec<OE> = (0..rows).map(|k| {
                    let mut acc = ozero(&s);
                    for i in (0..ff).rev() { acc = o_add(&s, &o_mul(&s, &acc, &alpha), &coeffs[i + ff * k]); }
                    acc
                }).collect();
                let expect: Vec<OE> = (0..rows).map(|i| oeval(&s, &folded, &opow(&s, &xs[i], ff as u64))).collect();
                let evals_e: Vec<E> = evals.iter().map(|e| E::from_canon(e)).collect();
                let alpha_e = E::from_canon(&alpha);
                for op in ["drp", "vfold"] {
                    out.count(&format!("{op}:{}:ff{ff}", E::NAME));
                    let _ = rep;
                    let req = format!("c08 {} {op} {ff} {} {}", E::NAME, show(&alpha), show_oelems(&evals));
                    out.case(&req, &show_oelems(&expect), || show_elems(&drp_impl(ff, &evals_e, alpha_e)));
                }
            }
        }
    }
    // remainder polynomial: no layers are built (domain <= (rmd+1)*blowup), the proof reveals it
    for &len in &[2usize, 4, 8, 16, 32] {
        for &blowup in &[2usize, 4, 8, 16] {
            if len / blowup == 0 { continue; }
            let ncoef = match rng.below(4) { 0 => len, 1 => len / blowup, 2 => 1, _ => rng.range(1, len as u64) as usize };
            let mut coeffs: Vec<OE> = (0..ncoef).map(|_| rand_oelem(rng, &s)).collect();
            coeffs.resize(len, ozero(&s));
            let g = obase(&s, root_of::<E::BaseField>(len));
            let off = obase(&s, gen);
            let evals: Vec<OE> = (0..len).map(|i| oeval(&s, &coeffs, &o_mul(&s, &off, &opow(&s, &g, i as u64)))).collect();
            // ORACLE: the first len/blowup coefficients, highest degree first
            let expect: Vec<OE> = coeffs[..len / blowup].iter().rev().cloned().collect();
            let evals_e: Vec<E> = evals.iter().map(|e| E::from_canon(e)).collect();
            out.count(&format!("rem:{}", E::NAME));
            out.case(&format!("c08 {} rem {blowup} {}", E::NAME, show_oelems(&evals)), &show_oelems(&expect), || {
                type H<B> = Blake3_256<B>;
                let rmd = (len / blowup).next_power_of_two() * 2 - 1; // (rmd+1)*blowup >= len: zero layers
                let opts = FriOptions::new(blowup, 2, rmd);
                let mut channel = DefaultProverChannel::<E, H<E::BaseField>, DefaultRandomCoin<H<E::BaseField>>>::new(len.max(8), 1);
                let mut prover = FriProver::<E, _, H<E::BaseField>, MerkleTree<H<E::BaseField>>>::new(opts);
                prover.build_layers(&mut channel, evals_e.clone());
                let proof = prover.build_proof(&[0]);
                show_elems(&proof.parse_remainder::<E>().expect("remainder"))
            });
        }
    }
}

// ---------------------------------------------------------------------------------------------
// drivers
// ---------------------------------------------------------------------------------------------
macro_rules! for_all_combos {
    ($f:ident, $rng:expr, $out:expr, $($arg:expr),*) => {{
        type B64 = f64::BaseElement; type B62 = f62::BaseElement; type B128 = f128::BaseElement;
        $f::<B64, Blake3_256<B64>>($rng, $out, "blake3", $($arg),*);
        $f::<B64, Sha3_256<B64>>($rng, $out, "sha3", $($arg),*);
        $f::<B64, Rp64_256>($rng, $out, "rp64", $($arg),*);
        $f::<QuadExtension<B64>, Blake3_256<B64>>($rng, $out, "blake3", $($arg),*);
        $f::<QuadExtension<B64>, Rp64_256>($rng, $out, "rp64", $($arg),*);
        $f::<CubeExtension<B64>, Sha3_256<B64>>($rng, $out, "sha3", $($arg),*);
        $f::<CubeExtension<B64>, Rp64_256>($rng, $out, "rp64", $($arg),*);
        $f::<B62, Blake3_256<B62>>($rng, $out, "blake3", $($arg),*);
        $f::<B62, Sha3_256<B62>>($rng, $out, "sha3", $($arg),*);
        $f::<QuadExtension<B62>, Sha3_256<B62>>($rng, $out, "sha3", $($arg),*);
        $f::<B128, Blake3_256<B128>>($rng, $out, "blake3", $($arg),*);
        $f::<B128, Sha3_256<B128>>($rng, $out, "sha3", $($arg),*);
        $f::<QuadExtension<B128>, Blake3_256<B128>>($rng, $out, "blake3", $($arg),*);
    }};
}

fn c08_combo<E: Fld, H: ElementHasher<BaseField = E::BaseField>>(rng: &mut Rng, out: &mut Out, hname: &str, n: usize, max_logd: u32) {
    // systematic: every folding factor x every remainder degree at a small and a larger domain
    let mut case_no = 0;
    for &ff in &[2usize, 4, 8, 16] {
        for &rmd in &RMDS {
            for &(logd, blowup) in &[(5u32, 2usize), (9, 8)] {
                let c = Cfg { blowup, ff, rmd, logd };
                if rmd > 7 && logd == 5 && (ff + rmd) % 3 != 0 { continue; }
                if !c.compatible() { continue; }
                c08_case::<E, H>(rng, out, hname, &c, case_no, None); case_no += 1;
            }
        }
    }
    // collision-rich position sets (same row at depth 0 / 1 / 2, duplicates) for every folding factor
    for &ff in &[2usize, 4, 8, 16] {
        for kind in 0..4u64 {
            let mut c = gen_cfg(rng, 10, true);
            for _ in 0..200 {
                if c.ff == ff && c.opts().num_fri_layers(c.domain()) >= (kind as usize).min(if ff >= 8 { 2 } else { 3 }) { break; }
                c = gen_cfg(rng, 11, true);
            }
            if c.ff != ff { continue; }
            c08_case::<E, H>(rng, out, hname, &c, case_no, Some(kind)); case_no += 1;
        }
    }
    for i in 0..n {
        let logd_cap = if i % 4 == 0 { max_logd } else { max_logd.min(10) };
        let c = gen_cfg(rng, logd_cap, true);
        c08_case::<E, H>(rng, out, hname, &c, case_no, None); case_no += 1;
    }
    // parameter combinations on which the degree bookkeeping does not divide evenly (the property
    // quantifies over ALL blowup / folding / remainder / domain combinations)
    for _ in 0..(n / 8).max(1) {
        let c = gen_cfg(rng, 8, false);
        c08_case::<E, H>(rng, out, hname, &c, case_no, None); case_no += 1;
    }
}

fn c09_combo<E: Fld, H: ElementHasher<BaseField = E::BaseField>>(rng: &mut Rng, out: &mut Out, hname: &str, n: usize, max_logd: u32) {
    let mut case_no = 0;
    for i in 0..n {
        for class_sel in 0..=13u64 {
            let cap = if (i + class_sel as usize) % 3 == 0 { max_logd } else { 8 };
            let mut c = gen_cfg(rng, cap, true);
            if class_sel >= 12 {
                // supplied-evaluation / collision classes: every folding factor in turn, mostly with layers
                let want_ff = [2usize, 4, 8, 16][(i + class_sel as usize) % 4];
                for t in 0..300 {
                    let layers = c.opts().num_fri_layers(c.domain());
                    if c.ff == want_ff && (layers >= 1 || (t > 200)) && (class_sel == 12 || layers >= 1) { break; }
                    c = gen_cfg(rng, cap.max(9), true);
                }
            }
            if class_sel == 9 {
                // the adaptive attack needs a remainder with room: large remainder degree
                for _ in 0..50 { if c.rmd >= 15 && c.bound_plus_1() > 16 { break; } c = gen_cfg(rng, cap.max(9), true); }
            }
            if c.bound_plus_1() < 2 { continue; }
            c09_case::<E, H>(rng, out, hname, &c, case_no, class_sel); case_no += 1;
        }
    }
}

pub fn run(rng: &mut Rng, out: &mut Out, n: usize) {
    let thorough = n > 100;
    let max_logd = if thorough { 14 } else { 12 };
    functions_index(rng, out, n);
    functions_field::<f64::BaseElement>(rng, out, n);
    functions_field::<QuadExtension<f64::BaseElement>>(rng, out, n);
    functions_field::<CubeExtension<f64::BaseElement>>(rng, out, n);
    functions_field::<f62::BaseElement>(rng, out, n);
    functions_field::<QuadExtension<f62::BaseElement>>(rng, out, n);
    functions_field::<CubeExtension<f62::BaseElement>>(rng, out, n);
    functions_field::<f128::BaseElement>(rng, out, n);
    functions_field::<QuadExtension<f128::BaseElement>>(rng, out, n);
    for_all_combos!(c08_combo, rng, out, n, max_logd);
}

pub fn run_c09(rng: &mut Rng, out: &mut Out, n: usize) {
    let thorough = n > 20;
    let max_logd = if thorough { 14 } else { 12 };
    for_all_combos!(c09_combo, rng, out, n, max_logd);
}
