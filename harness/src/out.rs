//! Output of the harness: for every case a `Q` line (request, also sent to the Lean driver) written
//! and flushed *before* the implementation runs, then an `A` line with the implementation's answer
//! and the oracle's expectation (`-` = none, `~re` = regular expression).  If the process dies
//! (allocation abort, stack overflow) the last `Q` line without an `A` line is the replay.
use std::collections::BTreeMap;
use std::io::Write;
use std::panic::{catch_unwind, AssertUnwindSafe};

pub struct Out {
    w: std::io::BufWriter<std::fs::File>,
    pub cases: u64,
    pub hist: BTreeMap<String, u64>,
}

impl Out {
    pub fn new(path: &str) -> Self {
        Out {
            w: std::io::BufWriter::new(std::fs::File::create(path).expect("create out")),
            cases: 0,
            hist: BTreeMap::new(),
        }
    }
    pub fn count(&mut self, key: &str) {
        *self.hist.entry(key.to_string()).or_insert(0) += 1;
    }
    /// run one case: `f` calls the real implementation and renders its observable result.
    pub fn case(&mut self, req: &str, oracle: &str, f: impl FnOnce() -> String) {
        writeln!(self.w, "Q\t{req}").unwrap();
        self.w.flush().unwrap();
        let got = match catch_unwind(AssertUnwindSafe(f)) {
            Ok(s) => s,
            Err(_) => "abort".to_string(),
        };
        writeln!(self.w, "A\t{got}\t{oracle}").unwrap();
        self.cases += 1;
    }
    pub fn finish(mut self, stats_path: &str) {
        self.w.flush().unwrap();
        let mut s = String::from("{");
        s.push_str(&format!("\"cases\":{}", self.cases));
        s.push_str(",\"hist\":{");
        let mut first = true;
        for (k, v) in &self.hist {
            if !first { s.push(','); }
            first = false;
            s.push_str(&format!("\"{}\":{}", k.replace('"', "'"), v));
        }
        s.push_str("}}");
        std::fs::write(stats_path, s).unwrap();
    }
}
