//! C18 (Merkle trees / openings / batch proofs are mutually consistent) and C19 (verification
//! rejects wrong data and never panics).  Families `c18` and `c19`; every request line starts with
//! `c18` (one Lean dispatch key), see `lean/Wf/Drv/Merkle.lean` for the line protocol.
//!
//! `MerkleTree<H>` / `BatchMerkleProof<H>` are generic in the hasher, so the REAL tree code is run
//! with two hashers:
//! * `Toy` – a TEST hasher defined here (32-byte digest = four LE `u64` words, `merge` = FNV-style
//!   fold over the eight input words).  It is fully specified and re-implemented in the Lean model
//!   (`Wf.Merkle.toyMerge`), so roots, proofs and batch proofs are compared digest by digest.
//! * `Blake3_256` – the production hasher; the model cannot compute Blake3, so for `<h> = b` only
//!   verdicts (root = independent recursive hash, verify ok/err, proof equalities) are printed and
//!   compared with the model's verdicts on a tree of the same shape, and with the oracle.
//! The oracles never look at the implementation's answer: they are the property's expectation
//! (`ok` for every honest opening, `err-*` for every substitution, never `abort`).
use std::panic::{catch_unwind, AssertUnwindSafe};

use winter_crypto::{
    build_merkle_nodes, hashers::Blake3_256, BatchMerkleProof, Digest, Hasher, MerkleTree,
    MerkleTreeError,
};
use winter_math::fields::f64::BaseElement;
use winter_utils::{
    ByteReader, ByteWriter, Deserializable, DeserializationError, Serializable,
};

use crate::out::Out;
use crate::rng::{hex, Rng};

// TEST HASHER
// ================================================================================================

#[derive(Debug, Default, Copy, Clone, Eq, PartialEq)]
pub struct TD(pub [u64; 4]);

impl Digest for TD {
    fn as_bytes(&self) -> [u8; 32] {
        let mut r = [0u8; 32];
        for k in 0..4 {
            r[8 * k..8 * k + 8].copy_from_slice(&self.0[k].to_le_bytes());
        }
        r
    }
}

impl Serializable for TD {
    fn write_into<W: ByteWriter>(&self, target: &mut W) {
        target.write_bytes(&self.as_bytes());
    }
}

impl Deserializable for TD {
    fn read_from<R: ByteReader>(source: &mut R) -> Result<Self, DeserializationError> {
        let b: [u8; 32] = source.read_array()?;
        let mut w = [0u64; 4];
        for k in 0..4 {
            w[k] = u64::from_le_bytes(b[8 * k..8 * k + 8].try_into().unwrap());
        }
        Ok(TD(w))
    }
}

pub struct Toy;

fn toy_step(h: u64, w: u64) -> u64 {
    let m = (h ^ w).wrapping_mul(0x100000001b3);
    m ^ (m >> 29)
}

impl Hasher for Toy {
    type Digest = TD;
    const COLLISION_RESISTANCE: u32 = 0;

    fn hash(bytes: &[u8]) -> TD {
        let mut h = 0xcbf29ce484222325u64;
        for b in bytes {
            h = toy_step(h, *b as u64);
        }
        TD([h, 0, 0, 0])
    }
    fn merge(values: &[TD; 2]) -> TD {
        let mut h = 0xcbf29ce484222325u64;
        for w in values[0].0.iter().chain(values[1].0.iter()) {
            h = toy_step(h, *w);
        }
        TD([h, 0, 0, 0])
    }
    fn merge_many(values: &[TD]) -> TD {
        let mut h = 0xcbf29ce484222325u64;
        for v in values {
            for w in v.0.iter() {
                h = toy_step(h, *w);
            }
        }
        TD([h, 0, 0, 0])
    }
    fn merge_with_int(seed: TD, value: u64) -> TD {
        Self::merge(&[seed, TD([value, 0, 0, 0])])
    }
}

type B3 = Blake3_256<BaseElement>;

/// what the streams need from a hasher besides `Hasher`
trait TH: Hasher {
    const TAG: &'static str;
    fn seeded(seed: u64, i: u64) -> Self::Digest;
}

impl TH for Toy {
    const TAG: &'static str = "t";
    fn seeded(seed: u64, i: u64) -> TD {
        let z = seed.wrapping_add((i + 1).wrapping_mul(0x9E3779B97F4A7C15));
        TD([z ^ (z >> 31), z.wrapping_mul(0xBF58476D1CE4E5B9), i, seed])
    }
}

impl TH for B3 {
    const TAG: &'static str = "b";
    fn seeded(seed: u64, i: u64) -> <B3 as Hasher>::Digest {
        let mut d = [0u8; 16];
        d[..8].copy_from_slice(&seed.to_le_bytes());
        d[8..].copy_from_slice(&i.to_le_bytes());
        B3::hash(&d)
    }
}

// RENDERING
// ================================================================================================

fn dhex<T: Digest>(d: &T) -> String {
    let b = d.as_bytes();
    let mut s = String::new();
    for k in (0..32).rev() {
        if s.is_empty() {
            if b[k] != 0 {
                s.push_str(&format!("{:x}", b[k]));
            }
        } else {
            s.push_str(&format!("{:02x}", b[k]));
        }
    }
    if s.is_empty() { "0".to_string() } else { s }
}

fn dlist<T: Digest>(l: &[T]) -> String {
    if l.is_empty() { "-".to_string() } else { l.iter().map(dhex).collect::<Vec<_>>().join(",") }
}

fn nodes_str<T: Digest>(ns: &[Vec<T>]) -> String {
    if ns.is_empty() {
        return "-".to_string();
    }
    ns.iter()
        .map(|v| if v.is_empty() { ".".to_string() } else { v.iter().map(dhex).collect::<Vec<_>>().join(",") })
        .collect::<Vec<_>>()
        .join(";")
}

fn ilist(l: &[usize]) -> String {
    if l.is_empty() { "-".to_string() } else { l.iter().map(|i| i.to_string()).collect::<Vec<_>>().join(",") }
}

fn merr(e: &MerkleTreeError) -> String {
    match e {
        MerkleTreeError::TooFewLeaves(..) => "err-toofewleaves",
        MerkleTreeError::NumberOfLeavesNotPowerOfTwo(..) => "err-notpow2",
        MerkleTreeError::LeafIndexOutOfBounds(..) => "err-oob",
        MerkleTreeError::DuplicateLeafIndex => "err-dup",
        MerkleTreeError::TooFewLeafIndexes => "err-toofew",
        MerkleTreeError::InvalidProof => "err-invalid",
        _ => "err-other",
    }
    .to_string()
}

fn unit_str(r: Result<(), MerkleTreeError>) -> String {
    match r {
        Ok(()) => "ok".to_string(),
        Err(e) => merr(&e),
    }
}

/// a call that may panic: the panic is the answer `abort`
fn guard(f: impl FnOnce() -> String) -> String {
    match catch_unwind(AssertUnwindSafe(f)) {
        Ok(s) => s,
        Err(_) => "abort".to_string(),
    }
}

// checksums (test hasher only; same folds in `Wf.Drv`)
fn td(n: u64) -> TD { TD([n, 0, 0, 0]) }
fn cs_list(h: TD, l: &[TD]) -> TD {
    let mut h = Toy::merge(&[h, td(l.len() as u64)]);
    for d in l {
        h = Toy::merge(&[h, *d]);
    }
    h
}
fn cs_nodes(ns: &[Vec<TD>]) -> TD {
    let mut h = Toy::merge(&[td(0), td(ns.len() as u64)]);
    for v in ns {
        h = cs_list(h, v);
    }
    h
}
fn cs_openings(os: &[(TD, Vec<TD>)]) -> TD {
    let mut h = Toy::merge(&[td(0), td(os.len() as u64)]);
    for (l, p) in os {
        h = cs_list(Toy::merge(&[h, *l]), p);
    }
    h
}

/// digests of the test hasher as `TD` (only called with `H = Toy`)
fn as_td<T: Digest>(d: &T) -> TD {
    let b = d.as_bytes();
    let mut w = [0u64; 4];
    for k in 0..4 {
        w[k] = u64::from_le_bytes(b[8 * k..8 * k + 8].try_into().unwrap());
    }
    TD(w)
}

// LEAVES
// ================================================================================================

#[derive(Clone)]
struct Spec {
    seed: u64,
    count: usize,
}

impl Spec {
    fn token(&self) -> String { format!("s:{}:{}", self.seed, self.count) }
    fn leaves<H: TH>(&self) -> Vec<H::Digest> {
        (0..self.count as u64).map(|i| H::seeded(self.seed, i)).collect()
    }
}

/// ORACLE: recursive pairwise hash of the leaves
fn root_rec<H: Hasher>(l: &[H::Digest]) -> H::Digest {
    if l.len() == 1 {
        l[0]
    } else {
        let h = l.len() / 2;
        H::merge(&[root_rec::<H>(&l[..h]), root_rec::<H>(&l[h..])])
    }
}

const CROSS_LIMIT: usize = 256;

// (the derived Clone / PartialEq of BatchMerkleProof<H> need `H: Clone + PartialEq`)
fn clone_proof<H: Hasher>(p: &BatchMerkleProof<H>) -> BatchMerkleProof<H> {
    BatchMerkleProof { nodes: p.nodes.clone(), depth: p.depth }
}
fn same_proof<H: Hasher>(a: &BatchMerkleProof<H>, b: &BatchMerkleProof<H>) -> bool {
    a.nodes == b.nodes && a.depth == b.depth
}

// C18 OPERATIONS
// ================================================================================================

fn op_build<H: TH>(out: &mut Out, spec: &Spec) {
    let req = format!("c18 build {} {}", H::TAG, spec.token());
    let n = spec.count;
    let oracle = if n < 2 {
        "err-toofewleaves".to_string()
    } else if !n.is_power_of_two() {
        "err-notpow2".to_string()
    } else {
        "~^ok true".to_string()
    };
    out.count(&format!("build-{}-{}", H::TAG, if n < 2 || !n.is_power_of_two() { "invalid".to_string() } else { format!("2^{}", n.trailing_zeros()) }));
    out.case(&req, &oracle, || {
        let leaves = spec.leaves::<H>();
        match MerkleTree::<H>::new(leaves.clone()) {
            Err(e) => merr(&e),
            Ok(tree) => {
                let nodes = build_merkle_nodes::<H>(&leaves);
                let m = *tree.root() == root_rec::<H>(&leaves) && nodes[1] == *tree.root();
                if H::TAG == "t" {
                    let mut h = td(0);
                    for d in &nodes {
                        h = Toy::merge(&[h, as_td(d)]);
                    }
                    format!("ok {} {} {}", m, dhex(tree.root()), dhex(&h))
                } else {
                    format!("ok {m}")
                }
            },
        }
    });
}

fn op_rawbuild(out: &mut Out, spec: &Spec) {
    let req = format!("c18 rawbuild {}", spec.token());
    out.count("rawbuild");
    // fewer than two leaves: `nodes[0] = ..` on an empty vector (benchmark-only public function)
    let oracle = if spec.count < 2 { "abort" } else { "~^ok " };
    out.case(&req, oracle, || {
        let leaves = spec.leaves::<Toy>();
        format!("ok {}", dlist(&build_merkle_nodes::<Toy>(&leaves)))
    });
}

fn op_prove<H: TH>(out: &mut Out, spec: &Spec, index: usize) {
    let req = format!("c18 prove {} {} {}", H::TAG, spec.token(), index);
    let oracle = if index < spec.count { "~^ok ok" } else { "err-oob" };
    out.count(if index < spec.count { "prove-inrange" } else { "prove-oob" });
    out.case(&req, oracle, || {
        let tree = MerkleTree::<H>::new(spec.leaves::<H>()).unwrap();
        match tree.prove(index) {
            Err(e) => merr(&e),
            Ok((leaf, proof)) => {
                let v = unit_str(MerkleTree::<H>::verify(*tree.root(), index, leaf, &proof));
                if H::TAG == "t" {
                    format!("ok {} {} {}", v, dhex(&leaf), dlist(&proof))
                } else {
                    format!("ok {v}")
                }
            },
        }
    });
}

/// ORACLE for the index list handed to prove_batch / get_root (documented error precedence)
fn expect_indexes(idx: &[usize], n: usize) -> Option<&'static str> {
    if idx.is_empty() {
        return Some("err-toofew");
    }
    if idx.iter().any(|&i| i >= n) {
        return Some("err-oob");
    }
    let mut s = idx.to_vec();
    s.sort();
    s.dedup();
    if s.len() != idx.len() {
        return Some("err-dup");
    }
    None
}

fn op_batch<H: TH>(out: &mut Out, spec: &Spec, idx: &[usize], class: &str) {
    let req = format!("c18 batch {} {} {}", H::TAG, spec.token(), ilist(idx));
    let oracle = match expect_indexes(idx, spec.count) {
        Some(e) => e.to_string(),
        None => "~^ok true ok (true|-) (true|-)( |$)".to_string(),
    };
    out.count(&format!("batch-{class}"));
    out.case(&req, &oracle, || {
        let tree = MerkleTree::<H>::new(spec.leaves::<H>()).unwrap();
        match tree.prove_batch(idx) {
            Err(e) => merr(&e),
            Ok((bl, proof)) => {
                let gr = match proof.get_root(idx, &bl) {
                    Ok(r) => r == *tree.root(),
                    Err(_) => false,
                };
                let vb = unit_str(MerkleTree::<H>::verify_batch(tree.root(), idx, &bl, &proof));
                let cross = idx.len() <= CROSS_LIMIT;
                let (fsp, io) = if cross {
                    let singles: Vec<_> = idx.iter().map(|&i| tree.prove(i).unwrap()).collect();
                    let fsp = guard(|| same_proof(&BatchMerkleProof::<H>::from_single_proofs(&singles, idx), &proof).to_string());
                    let io = guard(|| match clone_proof(&proof).into_openings(&bl, idx) {
                        Ok(os) => (os == singles).to_string(),
                        Err(_) => "false".to_string(),
                    });
                    (fsp, io)
                } else {
                    ("-".to_string(), "-".to_string())
                };
                if H::TAG == "t" {
                    let bl_td: Vec<TD> = bl.iter().map(as_td).collect();
                    let ns: Vec<Vec<TD>> = proof.nodes.iter().map(|v| v.iter().map(as_td).collect()).collect();
                    format!("ok {gr} {vb} {fsp} {io} {} {} {} {}", dhex(tree.root()), dhex(&cs_list(td(0), &bl_td)), proof.depth, dhex(&cs_nodes(&ns)))
                } else {
                    format!("ok {gr} {vb} {fsp} {io}")
                }
            },
        }
    });
}

fn shuffle<T>(rng: &mut Rng, v: &mut [T]) {
    for i in (1..v.len()).rev() {
        let j = rng.below(i as u64 + 1) as usize;
        v.swap(i, j);
    }
}

fn random_subset(rng: &mut Rng, n: usize, m: usize) -> Vec<usize> {
    // m distinct values below n, in random order
    let mut all: Vec<usize> = (0..n).collect();
    shuffle(rng, &mut all);
    all.truncate(m.min(n));
    all
}

fn permutations(items: &[usize]) -> Vec<Vec<usize>> {
    if items.len() <= 1 {
        return vec![items.to_vec()];
    }
    let mut r = vec![];
    for i in 0..items.len() {
        let mut rest = items.to_vec();
        let x = rest.remove(i);
        for mut p in permutations(&rest) {
            p.insert(0, x);
            r.push(p);
        }
    }
    r
}

/// index lists for a tree with `n` leaves: (class, list)
fn index_sets(rng: &mut Rng, n: usize) -> Vec<(String, Vec<usize>)> {
    let mut r: Vec<(String, Vec<usize>)> = vec![];
    let c = |s: &str| s.to_string();
    if n <= 8 {
        // every non-empty subset, in a random order; every order for subsets of size <= 3 (n <= 4)
        for mask in 1u32..(1 << n) {
            let mut s: Vec<usize> = (0..n).filter(|i| mask >> i & 1 == 1).collect();
            if n <= 4 && s.len() <= 4 {
                for p in permutations(&s) {
                    r.push((c("all-subsets-all-orders"), p));
                }
            } else {
                shuffle(rng, &mut s);
                r.push((c("all-subsets-random-order"), s));
            }
        }
        return r;
    }
    for &i in &[0, 1, n / 2 - 1, n / 2, n - 2, n - 1] {
        r.push((c("single"), vec![i]));
    }
    r.push((c("single"), vec![rng.below(n as u64) as usize]));
    r.push((c("sibling-pair"), vec![2 * (rng.below(n as u64 / 2) as usize) + 1, 0]));
    let k = 2 * (rng.below(n as u64 / 2) as usize);
    r.push((c("sibling-pair"), vec![k + 1, k]));
    r.push((c("sibling-pair"), vec![k, k + 1]));
    r.push((c("first-last"), vec![n - 1, 0]));
    r.push((c("halves"), vec![n / 2, n / 2 - 1]));
    r.push((c("all-leaves-sorted"), (0..n).collect()));
    let mut all: Vec<usize> = (0..n).collect();
    shuffle(rng, &mut all);
    r.push((c("all-leaves-shuffled"), all));
    r.push((c("all-leaves-reversed"), (0..n).rev().collect()));
    let mut ev: Vec<usize> = (0..n).step_by(2).collect();
    shuffle(rng, &mut ev);
    r.push((c("evens"), ev));
    let mut od: Vec<usize> = (1..n).step_by(2).collect();
    shuffle(rng, &mut od);
    r.push((c("odds"), od));
    r.push((c("all-but-one"), { let mut v = random_subset(rng, n, n); v.pop(); v }));
    // a contiguous run (whole subtrees collapse), unsorted
    let len = 1 + rng.below((n / 2) as u64) as usize;
    let start = rng.below((n - len) as u64 + 1) as usize;
    let mut run: Vec<usize> = (start..start + len).collect();
    shuffle(rng, &mut run);
    r.push((c("run"), run));
    for _ in 0..6 {
        let m = match rng.below(4) {
            0 => 1 + rng.below(4) as usize,
            1 => 1 + rng.below(40) as usize,
            2 => 1 + rng.below(n as u64) as usize,
            _ => 1 + rng.below((n as u64).min(300)) as usize,
        };
        r.push((c("random-subset"), random_subset(rng, n, m)));
    }
    // typical query pattern: few dozen positions in a big domain, with clustered neighbours
    let mut q = random_subset(rng, n, 20.min(n / 2));
    let extra: Vec<usize> = q.iter().map(|&i| i ^ 1).filter(|i| rng_bit(*i)).collect();
    for e in extra {
        if !q.contains(&e) {
            q.push(e);
        }
    }
    shuffle(rng, &mut q);
    r.push((c("clustered"), q));
    r
}

fn rng_bit(i: usize) -> bool { (i / 2) % 3 == 0 }

pub fn run(rng: &mut Rng, out: &mut Out, n: usize) {
    let max_k = n.clamp(4, 14);
    // construction: every size class, incl. rejected leaf counts and the raw builder
    for count in [0usize, 1, 3, 5, 6, 7, 12, 1000, 1025] {
        op_build::<Toy>(out, &Spec { seed: rng.next(), count });
        op_build::<B3>(out, &Spec { seed: rng.next(), count });
    }
    for count in [0usize, 1, 2, 3, 4, 5, 6, 7, 8, 9, 16, 31] {
        op_rawbuild(out, &Spec { seed: rng.next(), count });
    }
    for k in 1..=max_k {
        let count = 1usize << k;
        let reps = if k <= 3 { 2 } else { 1 };
        for _ in 0..reps {
            let spec = Spec { seed: rng.biased(64) as u64, count };
            op_build::<Toy>(out, &spec);
            op_build::<B3>(out, &spec);
            // single openings
            let idxs: Vec<usize> = if k <= 6 {
                (0..count).collect()
            } else {
                let mut v = vec![0, 1, 2, count / 2 - 1, count / 2, count - 2, count - 1];
                for _ in 0..12 {
                    v.push(rng.below(count as u64) as usize);
                }
                v
            };
            for &i in &idxs {
                op_prove::<Toy>(out, &spec, i);
            }
            for &i in idxs.iter().take(if k <= 4 { 16 } else { 4 }) {
                op_prove::<B3>(out, &spec, i);
            }
            for i in [count, count + 1, 2 * count, usize::MAX] {
                op_prove::<Toy>(out, &spec, i);
            }
            op_prove::<B3>(out, &spec, count);
            // batch openings
            let sets = index_sets(rng, count);
            for (j, (class, idx)) in sets.iter().enumerate() {
                op_batch::<Toy>(out, &spec, idx, class);
                if k <= 3 && j % 3 == 0 || k > 3 && (class != "single" || j == 0) {
                    op_batch::<B3>(out, &spec, idx, &format!("b3-{class}"));
                }
            }
            // index lists that must be refused
            op_batch::<Toy>(out, &spec, &[], "empty");
            op_batch::<B3>(out, &spec, &[], "empty");
            let mut d = random_subset(rng, count, 3.min(count));
            d.push(d[0]);
            op_batch::<Toy>(out, &spec, &d, "duplicate");
            op_batch::<B3>(out, &spec, &d, "duplicate");
            op_batch::<Toy>(out, &spec, &[0, 0], "duplicate");
            op_batch::<Toy>(out, &spec, &[count], "oob");
            op_batch::<Toy>(out, &spec, &[0, count, 0], "oob");
            op_batch::<B3>(out, &spec, &[1, count + 1], "oob");
            op_batch::<Toy>(out, &spec, &[1, usize::MAX], "oob");
        }
    }
}

// C19 OPERATIONS
// ================================================================================================

fn op_smut<H: TH>(out: &mut Out, spec: &Spec, index: usize, m: &str, oracle: &str, class: &str) {
    let req = format!("c18 smut {} {} {} {}", H::TAG, spec.token(), index, m);
    out.count(&format!("single-{class}"));
    out.case(&req, oracle, || {
        let tree = MerkleTree::<H>::new(spec.leaves::<H>()).unwrap();
        let (mut leaf, mut proof) = tree.prove(index).unwrap();
        let mut idx = index;
        let parts: Vec<&str> = m.split(':').collect();
        match parts[0] {
            "none" => {},
            "leaf" => leaf = H::merge(&[leaf, leaf]),
            "node" => {
                let j: usize = parts[1].parse().unwrap();
                proof[j] = H::merge(&[proof[j], proof[j]]);
            },
            "idx" => idx = parts[1].parse().unwrap(),
            _ => unreachable!(),
        }
        unit_str(MerkleTree::<H>::verify(*tree.root(), idx, leaf, &proof))
    });
}

/// the three batch entry points on explicit data: `<get_root> <verify_batch> <into_openings>`
fn batch_verdicts<H: TH>(show: bool, root: &H::Digest, proof: &BatchMerkleProof<H>, idx: &[usize], lv: &[H::Digest]) -> String {
    let gr = guard(|| match proof.get_root(idx, lv) {
        Ok(r) => {
            if show { format!("ok:{}", dhex(&r)) } else if r == *root { "ok-same".to_string() } else { "ok-diff".to_string() }
        },
        Err(e) => merr(&e),
    });
    let vb = guard(|| unit_str(MerkleTree::<H>::verify_batch(root, idx, lv, proof)));
    let io = guard(|| match clone_proof(proof).into_openings(lv, idx) {
        Ok(os) => {
            if show {
                let os: Vec<(TD, Vec<TD>)> = os.iter().map(|(l, p)| (as_td(l), p.iter().map(as_td).collect())).collect();
                format!("ok:{}", dhex(&cs_openings(&os)))
            } else {
                format!("ok:{}", os.len())
            }
        },
        Err(e) => merr(&e),
    });
    format!("{gr} {vb} {io}")
}

/// fix af69a4d: a leaf count other than the (non-zero) index count is InvalidProof in all three
/// entry points, before any index is looked at
const COUNT_MISMATCH: &str = "err-invalid err-invalid err-invalid";
const NO_ABORT: &str = r"~^(ok-same|ok-diff|err-\w+) (ok|err-\w+) (ok:\d+|err-\w+)$";
const REJECT: &str = r"~^(ok-diff|err-invalid) err-invalid (ok:\d+|err-\w+)$";
/// `get_root` itself must refuse (fix f1ad895: every supplied node has to be consumed);
/// `into_openings` has no consumption check and is not a verification function
const REJECT_UNUSED: &str = r"~^err-invalid err-invalid (ok:\d+|err-\w+)$";

fn op_bmut<H: TH>(out: &mut Out, spec: &Spec, idx: &[usize], m: &str, oracle: &str, class: &str) {
    let req = format!("c18 bmut {} {} {} {}", H::TAG, spec.token(), ilist(idx), m);
    out.count(&format!("batch-{class}"));
    out.case(&req, oracle, || {
        let tree = MerkleTree::<H>::new(spec.leaves::<H>()).unwrap();
        let (mut lv, mut proof) = tree.prove_batch(idx).unwrap();
        let mut idx = idx.to_vec();
        let parts: Vec<&str> = m.split(':').collect();
        let num = |k: usize| -> usize { parts[k].parse().unwrap() };
        match parts[0] {
            "none" => {},
            "leaf" => lv[num(1)] = H::merge(&[lv[num(1)], lv[num(1)]]),
            "node" => {
                let d = proof.nodes[num(1)][num(2)];
                proof.nodes[num(1)][num(2)] = H::merge(&[d, d]);
            },
            "idx" => idx[num(1)] = num(2),
            "dropnode" => { proof.nodes[num(1)].remove(num(2)); },
            "addnode" => {
                let f = fresh_of::<H>(proof.nodes[num(1)].first());
                proof.nodes[num(1)].push(f);
            },
            // k digests appended to vector i: fresh(head or 7), then fresh of the previous one
            "addnodes" => {
                let mut f = fresh_of::<H>(proof.nodes[num(1)].first());
                for _ in 0..num(2) {
                    proof.nodes[num(1)].push(f);
                    f = H::merge(&[f, f]);
                }
            },
            // the last digest of vector j is dropped and a fresh one appended to vector i (the
            // total number of digests is unchanged)
            "movenode" => {
                let f = fresh_of::<H>(proof.nodes[num(1)].first());
                proof.nodes[num(2)].pop().unwrap();
                proof.nodes[num(1)].push(f);
            },
            "dropvec" => { proof.nodes.remove(num(1)); },
            "addvec" => proof.nodes.push(vec![]),
            "depth" => proof.depth = num(1) as u8,
            "dropleaf" => { lv.remove(num(1)); },
            "addleaf" => { let f = fresh_of::<H>(lv.first()); lv.push(f); },
            // k surplus leaves: fresh(head or 7), then fresh of the previous one
            "addleaves" => {
                let mut f = fresh_of::<H>(lv.first());
                for _ in 0..num(1) {
                    lv.push(f);
                    f = H::merge(&[f, f]);
                }
            },
            // an index AND a leaf appended (the counts stay equal)
            "addpair" => { let f = fresh_of::<H>(lv.first()); lv.push(f); idx.push(num(1)); },
            "swapleaf" => lv.swap(num(1), num(2)),
            "dropidx" => { idx.remove(num(1)); },
            "addidx" => idx.push(num(1)),
            _ => unreachable!(),
        }
        batch_verdicts::<H>(false, tree.root(), &proof, &idx, &lv)
    });
}

/// `merge(d, d)` of the head, or of the digest "7" for an empty list (model: `fresh (headD 7)`)
fn fresh_of<H: TH>(d: Option<&H::Digest>) -> H::Digest {
    match d {
        Some(d) => H::merge(&[*d, *d]),
        None => {
            // only reachable with the test hasher in the generated streams
            let mut b = [0u8; 32];
            b[0] = 7;
            let seven = H::Digest::read_from_bytes(&b).unwrap();
            H::merge(&[seven, seven])
        },
    }
}

fn mutations_for<H: TH>(rng: &mut Rng, out: &mut Out, spec: &Spec, idx: &[usize], exhaustive: bool) {
    let n = spec.count;
    let tree = MerkleTree::<H>::new(spec.leaves::<H>()).unwrap();
    let (lv, proof) = tree.prove_batch(idx).unwrap();
    op_bmut::<H>(out, spec, idx, "none", "~^ok-same ok ok:", "unmutated");
    // every supplied leaf
    let positions: Vec<usize> = if exhaustive || lv.len() <= 6 { (0..lv.len()).collect() } else {
        vec![0, lv.len() - 1, rng.below(lv.len() as u64) as usize]
    };
    for &p in &positions {
        op_bmut::<H>(out, spec, idx, &format!("leaf:{p}"), "~^ok-diff err-invalid ok:", "leaf-substituted");
    }
    // every proof node
    let mut sites: Vec<(usize, usize)> = vec![];
    for (i, v) in proof.nodes.iter().enumerate() {
        for j in 0..v.len() {
            sites.push((i, j));
        }
    }
    if !(exhaustive || sites.len() <= 12) {
        shuffle(rng, &mut sites);
        sites.truncate(8);
    }
    for &(i, j) in &sites {
        op_bmut::<H>(out, spec, idx, &format!("node:{i}:{j}"), "~^ok-diff err-invalid ok:", "node-substituted");
        op_bmut::<H>(out, spec, idx, &format!("dropnode:{i}:{j}"), REJECT, "node-dropped");
    }
    // every index position: another in-range index, a duplicate, out of range
    for &p in &positions {
        let members: std::collections::BTreeSet<usize> = idx.iter().cloned().collect();
        let others: Vec<usize> = (0..n).filter(|i| !members.contains(i)).collect();
        let cands: Vec<usize> = if exhaustive && others.len() <= 16 { others.clone() } else if others.is_empty() { vec![] } else {
            let mut c = vec![*rng.pick(&others)];
            if others.contains(&(idx[p] ^ 1)) { c.push(idx[p] ^ 1); }
            c
        };
        for new in cands {
            op_bmut::<H>(out, spec, idx, &format!("idx:{p}:{new}"), REJECT, "index-substituted-inrange");
        }
        if idx.len() > 1 {
            let q = (p + 1 + rng.below(idx.len() as u64 - 1) as usize) % idx.len();
            op_bmut::<H>(out, spec, idx, &format!("idx:{p}:{}", idx[q]), "err-dup err-dup err-dup", "index-duplicate");
            if lv[p] != lv[q] {
                op_bmut::<H>(out, spec, idx, &format!("swapleaf:{p}:{q}"), REJECT, "leaves-swapped");
            }
        }
        for new in [n, n + idx[p], usize::MAX] {
            op_bmut::<H>(out, spec, idx, &format!("idx:{p}:{new}"), "err-oob err-oob err-oob", "index-out-of-range");
        }
    }
    // an index appended together with a leaf (counts equal): the index checks answer
    op_bmut::<H>(out, spec, idx, &format!("addpair:{}", idx[0]), "err-dup err-dup err-dup", "index-duplicate");
    op_bmut::<H>(out, spec, idx, &format!("addpair:{n}"), "err-oob err-oob err-oob", "index-out-of-range");
    op_bmut::<H>(out, spec, idx, &format!("addpair:{}", usize::MAX), "err-oob err-oob err-oob", "index-out-of-range");
    // an index appended alone: the leaf-count check answers first (fix af69a4d)
    op_bmut::<H>(out, spec, idx, &format!("addidx:{}", idx[0]), COUNT_MISMATCH, "index-appended");
    op_bmut::<H>(out, spec, idx, &format!("addidx:{n}"), COUNT_MISMATCH, "index-appended");
    // nodes that nothing consumes: an extra digest at the end of a node vector (every vector
    // position on small proofs; first, second, middle, last otherwise) must be REJECTED by
    // get_root / verify_batch (fix f1ad895), also when another vector is truncated so that the
    // total number of digests is unchanged; appending nothing changes nothing
    let nv = proof.nodes.len();
    let mut vpos: Vec<usize> = if exhaustive || nv <= 8 { (0..nv).collect() } else {
        vec![0, 1, nv / 2, nv - 1, rng.below(nv as u64) as usize]
    };
    vpos.sort();
    vpos.dedup();
    for &i in &vpos {
        let class = if proof.nodes[i].is_empty() { "node-appended-to-empty-vector" } else if i == 0 { "node-appended-first" } else if i == nv - 1 { "node-appended-last" } else { "node-appended-middle" };
        op_bmut::<H>(out, spec, idx, &format!("addnode:{i}"), REJECT_UNUSED, class);
    }
    {
        let i = vpos[rng.below(vpos.len() as u64) as usize];
        op_bmut::<H>(out, spec, idx, &format!("addnodes:{i}:{}", 2 + rng.below(3)), REJECT_UNUSED, "nodes-appended-many");
        op_bmut::<H>(out, spec, idx, &format!("addnodes:{i}:0"), "~^ok-same ok ok:", "nothing-appended");
        // as many digests as the whole proof has vectors (the count a lazy length check might allow)
        op_bmut::<H>(out, spec, idx, &format!("addnodes:{}:{nv}", nv - 1), REJECT_UNUSED, "nodes-appended-many");
    }
    let nonempty: Vec<usize> = (0..nv).filter(|&j| !proof.nodes[j].is_empty()).collect();
    for &i in &vpos {
        let from: Vec<usize> = nonempty.iter().cloned().filter(|&j| j != i).collect();
        if from.is_empty() { continue; }
        let js: Vec<usize> = if exhaustive { from.clone() } else { vec![from[0], from[from.len() - 1], *rng.pick(&from)] };
        let mut js = js;
        js.sort();
        js.dedup();
        for j in js {
            op_bmut::<H>(out, spec, idx, &format!("movenode:{i}:{j}"), REJECT_UNUSED, "node-moved-count-unchanged");
        }
    }
    // structural damage: must be ok/err, never a panic
    for i in 0..proof.nodes.len().min(if exhaustive { 8 } else { 2 }) {
        op_bmut::<H>(out, spec, idx, &format!("dropvec:{i}"), NO_ABORT, "vector-dropped");
    }
    op_bmut::<H>(out, spec, idx, "addvec", NO_ABORT, "vector-appended");
    let depth = proof.depth as usize;
    for d in [0usize, 1, depth.saturating_sub(1), depth + 1, depth + 2, 62, 63, 64, 65, 127, 128, 255] {
        if d != depth {
            op_bmut::<H>(out, spec, idx, &format!("depth:{d}"), NO_ABORT, "depth-changed");
        }
    }
    // leaf count != index count (fix af69a4d): surplus leaves used to be ignored by get_root;
    // now one leaf too many / too few, at either end or in the middle, is InvalidProof
    op_bmut::<H>(out, spec, idx, &format!("dropleaf:{}", lv.len() - 1), COUNT_MISMATCH, "leaf-dropped-last");
    op_bmut::<H>(out, spec, idx, "dropleaf:0", COUNT_MISMATCH, "leaf-dropped-first");
    if lv.len() > 2 {
        op_bmut::<H>(out, spec, idx, &format!("dropleaf:{}", lv.len() / 2), COUNT_MISMATCH, "leaf-dropped-middle");
    }
    op_bmut::<H>(out, spec, idx, "addleaf", COUNT_MISMATCH, "leaf-appended");
    op_bmut::<H>(out, spec, idx, &format!("addleaves:{}", 2 + rng.below(3)), COUNT_MISMATCH, "leaves-appended-many");
    op_bmut::<H>(out, spec, idx, &format!("addleaves:{}", lv.len()), COUNT_MISMATCH, "leaves-appended-many");
    op_bmut::<H>(out, spec, idx, "addleaves:0", "~^ok-same ok ok:", "nothing-appended");
    let dropidx_oracle = if idx.len() == 1 { "err-toofew err-toofew err-toofew" } else { COUNT_MISMATCH };
    op_bmut::<H>(out, spec, idx, &format!("dropidx:{}", idx.len() - 1), dropidx_oracle, "index-dropped");
    op_bmut::<H>(out, spec, idx, "dropidx:0", dropidx_oracle, "index-dropped");
    for new in [0usize, 1, n - 1] {
        op_bmut::<H>(out, spec, idx, &format!("addidx:{new}"), COUNT_MISMATCH, "index-appended");
    }
}

fn small_digest(rng: &mut Rng) -> TD {
    match rng.below(4) {
        0 => TD([rng.below(4), 0, 0, 0]),
        1 => TD([rng.next(), 0, 0, 0]),
        _ => TD([rng.next(), rng.below(2) * rng.next(), 0, rng.below(2) * rng.next()]),
    }
}

const X_NO_ABORT: &str = r"~^(ok:\w+|err-\w+) (ok|err-\w+) (ok:\w+|err-\w+)$";

fn op_xbatch(out: &mut Out, root: TD, depth: u8, nodes: &[Vec<TD>], idx: &[usize], lv: &[TD], class: &str) {
    let req = format!("c18 xbatch {} {} {} {} {}", dhex(&root), depth, nodes_str(nodes), ilist(idx), dlist(lv));
    out.count(&format!("explicit-{class}{}", if !idx.is_empty() && idx.len() != lv.len() { "-leaf-count-mismatch" } else { "" }));
    // fix af69a4d: with at least one index, a different number of leaves is InvalidProof everywhere
    let oracle = if idx.is_empty() { "err-toofew err-toofew err-toofew" } else if idx.len() != lv.len() { COUNT_MISMATCH } else { X_NO_ABORT };
    out.case(&req, oracle, || {
        let proof = BatchMerkleProof::<Toy> { nodes: nodes.to_vec(), depth };
        batch_verdicts::<Toy>(true, &root, &proof, idx, lv)
    });
}

fn random_index(rng: &mut Rng, depth: u8) -> usize {
    let n = if depth < 63 { 1u64 << depth } else { u64::MAX };
    match rng.below(8) {
        0 => rng.below(4) as usize,
        1 => n.wrapping_sub(rng.below(3)) as usize,
        2 => n.wrapping_add(rng.below(3)) as usize,
        3 => (u64::MAX - rng.below(3)) as usize,
        _ => rng.below(n.max(1)) as usize,
    }
}

fn op_xverify(out: &mut Out, root: TD, index: usize, leaf: TD, proof: &[TD], oracle: &str, class: &str) {
    let req = format!("c18 xverify {} {} {} {}", dhex(&root), index, dhex(&leaf), dlist(proof));
    out.count(&format!("single-{class}"));
    out.case(&req, oracle, || unit_str(MerkleTree::<Toy>::verify(root, index, leaf, proof)));
}

fn openings_str(os: &[(TD, Vec<TD>)]) -> String {
    if os.is_empty() {
        return "-".to_string();
    }
    os.iter()
        .map(|(l, p)| format!("{}/{}", dhex(l), if p.is_empty() { ".".to_string() } else { p.iter().map(dhex).collect::<Vec<_>>().join(",") }))
        .collect::<Vec<_>>()
        .join(";")
}

fn op_xfsp(out: &mut Out, os: &[(TD, Vec<TD>)], idx: &[usize], oracle: &str, class: &str) {
    let req = format!("c18 xfsp {} {}", openings_str(os), ilist(idx));
    out.count(&format!("from-single-{class}"));
    out.case(&req, oracle, || {
        let p = BatchMerkleProof::<Toy>::from_single_proofs(os, idx);
        format!("ok:{}:{}", p.depth, nodes_str(&p.nodes))
    });
}

const XDEC_NO_ABORT: &str = r"~^(decerr|\S+ (ok:\w+|err-\w+) (ok:\w+|err-\w+))$";
/// a decodable proof that `get_root` must refuse as InvalidProof
const XDEC_REJECT: &str = r"~^\S+ err-invalid (ok:\w+|err-\w+)$";

fn op_xdec(out: &mut Out, bytes: &[u8], idx: &[usize], lv: &[TD], class: &str, oracle: &str) {
    let req = format!("c18 xdec {} {} {}", hex(bytes), ilist(idx), dlist(lv));
    out.count(&format!("decode-{class}"));
    out.case(&req, oracle, || {
        match BatchMerkleProof::<Toy>::read_from_bytes(bytes) {
            Err(_) => "decerr".to_string(),
            Ok(p) => {
                let gr = guard(|| match p.get_root(idx, lv) {
                    Ok(r) => format!("ok:{}", dhex(&r)),
                    Err(e) => merr(&e),
                });
                let io = guard(|| match clone_proof(&p).into_openings(lv, idx) {
                    Ok(os) => {
                        let os: Vec<(TD, Vec<TD>)> = os.iter().map(|(l, q)| (*l, q.clone())).collect();
                        format!("ok:{}", dhex(&cs_openings(&os)))
                    },
                    Err(e) => merr(&e),
                });
                format!("{}:{} {gr} {io}", p.depth, nodes_str(&p.nodes))
            },
        }
    });
}

pub fn run_c19(rng: &mut Rng, out: &mut Out, n: usize) {
    let max_k = n.clamp(4, 14);
    // ---- single openings: every substitution ----------------------------------------------------
    for k in 1..=max_k {
        let count = 1usize << k;
        let spec = Spec { seed: rng.biased(64) as u64, count };
        let idxs: Vec<usize> = if k <= 4 { (0..count).collect() } else {
            vec![0, 1, count / 2, count - 1, rng.below(count as u64) as usize, rng.below(count as u64) as usize]
        };
        for &i in &idxs {
            op_smut::<Toy>(out, &spec, i, "none", "ok", "unmutated");
            op_smut::<Toy>(out, &spec, i, "leaf", "err-invalid", "leaf-substituted");
            for j in 0..k {
                op_smut::<Toy>(out, &spec, i, &format!("node:{j}"), "err-invalid", "node-substituted");
            }
            let others: Vec<usize> = if k <= 4 { (0..count).filter(|&x| x != i).collect() } else {
                let mut v = vec![i ^ 1, i ^ (count >> 1), (i + 1) % count];
                for _ in 0..3 {
                    let x = rng.below(count as u64) as usize;
                    if x != i { v.push(x); }
                }
                v
            };
            for x in others {
                op_smut::<Toy>(out, &spec, i, &format!("idx:{x}"), "err-invalid", "index-substituted-inrange");
            }
            // NOT covered by the property: `verify` only looks at the low `depth` bits of the index
            op_smut::<Toy>(out, &spec, i, &format!("idx:{}", i + count), "-", "index-alias-out-of-range");
        }
        // production hasher: same substitutions, verdicts only
        let i = idxs[idxs.len() - 1];
        op_smut::<B3>(out, &spec, i, "none", "ok", "b3-unmutated");
        op_smut::<B3>(out, &spec, i, "leaf", "err-invalid", "b3-leaf-substituted");
        for j in 0..k {
            op_smut::<B3>(out, &spec, i, &format!("node:{j}"), "err-invalid", "b3-node-substituted");
        }
        op_smut::<B3>(out, &spec, i, &format!("idx:{}", i ^ 1), "err-invalid", "b3-index-substituted-inrange");
        op_smut::<B3>(out, &spec, i, &format!("idx:{}", (i + count / 2) % count), "err-invalid", "b3-index-substituted-inrange");
    }
    // arbitrary single proofs (an EMPTY proof makes `verify` index `proof[0]`: reported, see
    // known findings; the property's no-panic clause is about the batch functions)
    for _ in 0..60 {
        let len = rng.below(6) as usize;
        let proof: Vec<TD> = (0..len).map(|_| small_digest(rng)).collect();
        let oracle = if len == 0 { "-" } else { "~^(ok|err-invalid)$" };
        let idx = random_index(rng, len as u8);
        op_xverify(out, small_digest(rng), idx, small_digest(rng), &proof, oracle, if len == 0 { "empty-proof" } else { "random" });
    }
    op_xverify(out, td(1), 0, td(2), &vec![td(3); 64], "~^(ok|err-invalid)$", "proof-64");
    op_xverify(out, td(1), usize::MAX, td(2), &vec![td(3); 70], "~^(ok|err-invalid)$", "proof-70");

    // ---- batch proofs: every substitution, structural damage ------------------------------------
    for k in 1..=max_k {
        let count = 1usize << k;
        let spec = Spec { seed: rng.biased(64) as u64, count };
        let mut sets: Vec<Vec<usize>> = vec![];
        if k <= 3 {
            for mask in 1u32..(1 << count) {
                let mut s: Vec<usize> = (0..count).filter(|i| mask >> i & 1 == 1).collect();
                if k == 3 && rng.below(8) != 0 { continue; }
                shuffle(rng, &mut s);
                sets.push(s);
            }
        } else {
            sets.push(vec![rng.below(count as u64) as usize]);
            let e = 2 * rng.below(count as u64 / 2) as usize;
            sets.push(vec![e + 1, e]);
            sets.push(random_subset(rng, count, 3));
            let m = 1 + rng.below(12.min(count as u64)) as usize;
            sets.push(random_subset(rng, count, m));
            if k <= 6 { sets.push(random_subset(rng, count, count)); }
        }
        for (j, s) in sets.iter().enumerate() {
            mutations_for::<Toy>(rng, out, &spec, s, k <= 3);
            if j % 4 == 0 {
                mutations_for::<B3>(rng, out, &spec, s, false);
            }
        }
    }
    // ---- arbitrary (proof, indexes, leaves) -----------------------------------------------------
    for r in 0..(400 * max_k) {
        let depth: u8 = match rng.below(10) {
            0 => 0,
            1 => *rng.pick(&[62u8, 63, 64, 65, 128, 255]),
            _ => rng.range(1, 5) as u8,
        };
        let nv = rng.below(5) as usize;
        let nodes: Vec<Vec<TD>> = (0..nv).map(|_| (0..rng.below(4)).map(|_| small_digest(rng)).collect()).collect();
        let ni = rng.below(6) as usize;
        let idx: Vec<usize> = (0..ni).map(|_| random_index(rng, depth)).collect();
        let nl = if rng.chance(2, 3) { ni } else { rng.below(7) as usize };
        let lv: Vec<TD> = (0..nl).map(|_| small_digest(rng)).collect();
        op_xbatch(out, small_digest(rng), depth, &nodes, &idx, &lv, if r % 2 == 0 { "random" } else { "random2" });
    }
    // near-valid: a real proof with one field replaced by random material
    for _ in 0..(60 * max_k) {
        let k = rng.range(1, 5) as usize;
        let count = 1usize << k;
        let spec = Spec { seed: rng.next(), count };
        let tree = MerkleTree::<Toy>::new(spec.leaves::<Toy>()).unwrap();
        let m = 1 + rng.below(count.min(5) as u64) as usize;
        let idx = random_subset(rng, count, m);
        let (mut lv, mut proof) = tree.prove_batch(&idx).unwrap();
        let mut idx = idx;
        match rng.below(8) {
            6 => { let i = rng.below(proof.nodes.len() as u64) as usize; let n = 1 + rng.below(2); for _ in 0..n { let d = small_digest(rng); proof.nodes[i].push(d); } },
            7 => {
                // one digest moved from the end of a vector to the end of another
                let i = rng.below(proof.nodes.len() as u64) as usize;
                let j = rng.below(proof.nodes.len() as u64) as usize;
                if let Some(d) = proof.nodes[j].pop() { proof.nodes[i].push(d); }
            },
            0 => proof.depth = rng.below(8) as u8,
            1 => { let i = rng.below(proof.nodes.len() as u64) as usize; proof.nodes[i] = (0..rng.below(4)).map(|_| small_digest(rng)).collect(); },
            2 => { let j = rng.below(proof.nodes.len() as u64) as usize; proof.nodes.swap(0, j); proof.nodes.reverse(); },
            3 => { idx = (0..idx.len()).map(|_| rng.below(count as u64) as usize).collect(); },
            4 => { lv.truncate(rng.below(lv.len() as u64 + 1) as usize); },
            _ => { shuffle(rng, &mut idx); },
        }
        op_xbatch(out, *tree.root(), proof.depth, &proof.nodes, &idx, &lv, "near-valid");
    }
    // ---- wire format: decode mutated encodings, then use the result -----------------------------
    for _ in 0..(60 * max_k) {
        let k = rng.range(1, 4) as usize;
        let count = 1usize << k;
        let spec = Spec { seed: rng.next(), count };
        let tree = MerkleTree::<Toy>::new(spec.leaves::<Toy>()).unwrap();
        let m = 1 + rng.below(count.min(4) as u64) as usize;
        let idx = random_subset(rng, count, m);
        let (lv, mut proof) = tree.prove_batch(&idx).unwrap();
        let padded = rng.below(8) == 0;
        if padded {
            // a well-formed encoding of a proof with a digest nothing consumes
            let i = rng.below(proof.nodes.len() as u64) as usize;
            let d = small_digest(rng);
            proof.nodes[i].push(d);
        }
        let mut bytes = proof.to_bytes();
        let class = if padded { "node-appended" } else { match rng.below(7) {
            0 => "intact",
            1 => { let i = rng.below(bytes.len() as u64) as usize; bytes[i] ^= 1 << rng.below(8); "bit-flip" },
            2 => { bytes.truncate(rng.below(bytes.len() as u64) as usize); "truncated" },
            3 => { bytes[0] = *rng.pick(&[0u8, 1, 63, 64, 200, 255]); "depth-byte" },
            4 => { if bytes.len() > 1 { bytes[1] = rng.next() as u8; } "count-byte" },
            5 => { let i = rng.below(bytes.len() as u64) as usize; bytes[i] = rng.next() as u8; "byte-replaced" },
            _ => { let m = rng.below(40) as usize; let extra = rng.bytes(m); bytes.extend(extra); "extended" },
        } };
        op_xdec(out, &bytes, &idx, &lv, class, if padded { XDEC_REJECT } else { XDEC_NO_ABORT });
    }
    for _ in 0..(20 * max_k) {
        let len = rng.below(80) as usize;
        let mut bytes = rng.bytes(len);
        if len > 2 && rng.chance(2, 3) { bytes[0] = rng.below(4) as u8; bytes[1] = ((rng.below(3) as u8) << 1) | 1; }
        let idx: Vec<usize> = (0..rng.range(1, 3)).map(|_| rng.below(4) as usize).collect();
        let lv: Vec<TD> = idx.iter().map(|_| small_digest(rng)).collect();
        op_xdec(out, &bytes, &idx, &lv, "random-bytes", XDEC_NO_ABORT);
    }
    // ---- from_single_proofs: documented panics and consistent inputs ----------------------------
    for _ in 0..(20 * max_k) {
        let k = rng.range(1, 4) as usize;
        let count = 1usize << k;
        let spec = Spec { seed: rng.next(), count };
        let tree = MerkleTree::<Toy>::new(spec.leaves::<Toy>()).unwrap();
        let m = 1 + rng.below(count.min(5) as u64) as usize;
        let idx = random_subset(rng, count, m);
        let os: Vec<(TD, Vec<TD>)> = idx.iter().map(|&i| tree.prove(i).unwrap()).collect();
        op_xfsp(out, &os, &idx, "~^ok:", "valid");
        let mut os2 = os.clone();
        let mut idx2 = idx.clone();
        match rng.below(5) {
            0 => { op_xfsp(out, &[], &[], "abort", "empty-documented-panic"); },
            1 => { idx2.push(0); op_xfsp(out, &os2, &idx2, "abort", "length-mismatch-documented-panic"); },
            2 => { if os2.len() > 1 { os2[1].1.pop(); op_xfsp(out, &os2, &idx2, "abort", "unequal-proof-lengths-documented-panic"); } },
            3 => { for o in os2.iter_mut() { o.1.clear(); } op_xfsp(out, &os2, &idx2, "-", "zero-length-proofs-undocumented-panic"); },
            _ => { idx2[0] = idx2[idx2.len() - 1]; op_xfsp(out, &os2, &idx2, "~^(ok:|abort)", "duplicate-indexes"); },
        }
    }
}
