//! C26: primitive encodings round-trip / reject malformed input.
//! Type-directed generation over a menu of concrete Rust types covering every
//! `Serializable`/`Deserializable` impl of `winter-utils`.
use std::collections::{BTreeMap, BTreeSet};

use winter_utils::{Deserializable, DeserializationError, Serializable, SliceReader};

use crate::out::Out;
use crate::rng::{hex, Rng};

#[derive(Clone, Debug, PartialEq)]
pub enum Val {
    N(u128),
    B(bool),
    U,
    S(Vec<u8>),
    None,
    Some(Box<Val>),
    L(Vec<Val>),
    T(Vec<Val>),
}

impl Val {
    pub fn show(&self) -> String {
        match self {
            Val::N(v) => format!("{v}"),
            Val::B(true) => "t".into(),
            Val::B(false) => "f".into(),
            Val::U => "u".into(),
            Val::S(b) => format!("x{}", if b.is_empty() { String::new() } else { hex(b) }),
            Val::None => "N".into(),
            Val::Some(v) => format!("S{}", v.show()),
            Val::L(vs) => format!("[{}]", vs.iter().map(|v| v.show()).collect::<Vec<_>>().join(",")),
            Val::T(vs) => format!("({})", vs.iter().map(|v| v.show()).collect::<Vec<_>>().join(",")),
        }
    }
}

pub trait Dyn: Serializable + Deserializable + Sized {
    fn ty() -> String;
    fn to_val(&self) -> Val;
    fn gen(rng: &mut Rng, depth: u32) -> Self;
}

macro_rules! dyn_uint {
    ($t:ty, $name:expr, $bits:expr) => {
        impl Dyn for $t {
            fn ty() -> String { $name.to_string() }
            fn to_val(&self) -> Val { Val::N(*self as u128) }
            fn gen(rng: &mut Rng, _d: u32) -> Self { rng.biased($bits) as $t }
        }
    };
}
dyn_uint!(u8, "u8", 8);
dyn_uint!(u16, "u16", 16);
dyn_uint!(u32, "u32", 32);
dyn_uint!(u64, "u64", 64);
dyn_uint!(u128, "u128", 128);
dyn_uint!(usize, "usize", 64);

impl Dyn for () {
    fn ty() -> String { "unit".into() }
    fn to_val(&self) -> Val { Val::U }
    fn gen(_: &mut Rng, _d: u32) -> Self {}
}

// `bool` has no `Serializable` impl of its own; it appears through `Option` and write_bool/read_bool.

impl Dyn for String {
    fn ty() -> String { "str".into() }
    fn to_val(&self) -> Val { Val::S(self.as_bytes().to_vec()) }
    fn gen(rng: &mut Rng, _d: u32) -> Self {
        let n = match rng.below(6) { 0 => 0, 1 => 1, 2 => rng.range(126, 130), _ => rng.below(12) };
        let mut s = String::new();
        for _ in 0..n {
            let c = match rng.below(8) {
                0 => *rng.pick(&['\u{0}', '\u{7f}', '\u{80}', '\u{7ff}', '\u{800}', '\u{d7ff}', '\u{e000}',
                    '\u{ffff}', '\u{10000}', '\u{10ffff}', '\u{fffd}', '\u{fff}', '\u{1000}', '\u{3ffff}', '\u{40000}', '\u{fffff}', '\u{100000}']),
                1 => char::from_u32(rng.below(0x110000) as u32).unwrap_or('?'),
                _ => (b'a' + rng.below(26) as u8) as char,
            };
            s.push(c);
        }
        s
    }
}

impl<T: Dyn> Dyn for Option<T> {
    fn ty() -> String { format!("O{}", T::ty()) }
    fn to_val(&self) -> Val {
        match self { Some(v) => Val::Some(Box::new(v.to_val())), None => Val::None }
    }
    fn gen(rng: &mut Rng, d: u32) -> Self {
        if rng.chance(1, 3) { None } else { Some(T::gen(rng, d + 1)) }
    }
}

fn gen_len(rng: &mut Rng, d: u32) -> usize {
    if d >= 2 { return rng.below(3) as usize; }
    match rng.below(10) {
        0 => 0,
        1 => 1,
        2 => rng.range(126, 130) as usize, // crosses the 1-byte/2-byte vint64 boundary
        _ => rng.below(9) as usize,
    }
}

impl<T: Dyn> Dyn for Vec<T> {
    fn ty() -> String { format!("V{}", T::ty()) }
    fn to_val(&self) -> Val { Val::L(self.iter().map(|v| v.to_val()).collect()) }
    fn gen(rng: &mut Rng, d: u32) -> Self {
        let n = gen_len(rng, d);
        (0..n).map(|_| T::gen(rng, d + 1)).collect()
    }
}

impl<T: Dyn + core::fmt::Debug, const C: usize> Dyn for [T; C] {
    fn ty() -> String { format!("A{}:{}", C, T::ty()) }
    fn to_val(&self) -> Val { Val::L(self.iter().map(|v| v.to_val()).collect()) }
    fn gen(rng: &mut Rng, d: u32) -> Self {
        let v: Vec<T> = (0..C).map(|_| T::gen(rng, d + 1)).collect();
        v.try_into().unwrap()
    }
}

impl<T: Dyn + Ord> Dyn for BTreeSet<T> {
    fn ty() -> String { format!("B{}", T::ty()) }
    fn to_val(&self) -> Val { Val::L(self.iter().map(|v| v.to_val()).collect()) }
    fn gen(rng: &mut Rng, d: u32) -> Self {
        let n = gen_len(rng, d);
        (0..n).map(|_| T::gen(rng, d + 1)).collect()
    }
}

impl<K: Dyn + Ord, V: Dyn> Dyn for BTreeMap<K, V> {
    fn ty() -> String { format!("M{}:{}", K::ty(), V::ty()) }
    fn to_val(&self) -> Val {
        Val::L(self.iter().map(|(k, v)| Val::T(vec![k.to_val(), v.to_val()])).collect())
    }
    fn gen(rng: &mut Rng, d: u32) -> Self {
        let n = gen_len(rng, d);
        (0..n).map(|_| (K::gen(rng, d + 1), V::gen(rng, d + 1))).collect()
    }
}

macro_rules! dyn_tuple {
    ($($t:ident $i:tt),+) => {
        impl<$($t: Dyn),+> Dyn for ($($t,)+) {
            fn ty() -> String { format!("P({})", vec![$($t::ty()),+].join(",")) }
            fn to_val(&self) -> Val { Val::T(vec![$(self.$i.to_val()),+]) }
            fn gen(rng: &mut Rng, d: u32) -> Self { ($($t::gen(rng, d + 1),)+) }
        }
    };
}
dyn_tuple!(T1 0);
dyn_tuple!(T1 0, T2 1);
dyn_tuple!(T1 0, T2 1, T3 2);
dyn_tuple!(T1 0, T2 1, T3 2, T4 3);
dyn_tuple!(T1 0, T2 1, T3 2, T4 3, T5 4);
dyn_tuple!(T1 0, T2 1, T3 2, T4 3, T5 4, T6 5);

pub fn err_str(e: &DeserializationError) -> &'static str {
    match e {
        DeserializationError::UnexpectedEOF => "eof",
        DeserializationError::InvalidValue(_) => "invalid",
        DeserializationError::UnknownError(_) => "other",
        DeserializationError::UnconsumedBytes => "unconsumed",
    }
}

/// decode `bytes` as `T` with the in-memory reader and render value + number of bytes consumed
fn dec_show<T: Dyn>(bytes: &[u8]) -> String {
    let mut r = SliceReader::new(bytes);
    match T::read_from(&mut r) {
        Ok(v) => {
            // bytes consumed = total - remaining; SliceReader has no position accessor, so count
            // what is left by draining it
            let mut left = 0usize;
            while winter_utils::ByteReader::read_u8(&mut r).is_ok() { left += 1; }
            format!("ok {} {}", v.to_val().show(), bytes.len() - left)
        },
        Err(e) => format!("err {}", err_str(&e)),
    }
}

fn run_type<T: Dyn>(rng: &mut Rng, out: &mut Out, n: usize) {
    let ty = T::ty();
    for _ in 0..n {
        let v = T::gen(rng, 0);
        let val = v.to_val().show();
        let bytes = v.to_bytes();
        out.count(&format!("ty:{ty}"));
        out.count(&format!("enclen:{}", match bytes.len() { 0 => "0", 1..=8 => "1-8", 9..=64 => "9-64", 65..=255 => "65-255", _ => "256+" }));
        // 1. encoding (model vs implementation)
        out.case(&format!("c26 enc {ty} {val}"), "-", || hex(&v.to_bytes()));
        // 2. round trip with exact consumption; followed by unrelated trailing bytes
        let mut padded = bytes.clone();
        let extra = rng.below(4) as usize;
        padded.extend(rng.bytes(extra));
        let expect = format!("ok {val} {}", bytes.len());
        out.case(&format!("c26 dec {ty} {}", hex(&padded)), &expect, || dec_show::<T>(&padded));
        // 3. truncations: every strict prefix for short encodings, sampled for long ones
        let cuts: Vec<usize> = if bytes.len() <= 24 { (0..bytes.len()).collect() }
            else { (0..12).map(|_| rng.below(bytes.len() as u64) as usize).collect() };
        for c in cuts {
            let pre = bytes[..c].to_vec();
            out.count("truncation");
            out.case(&format!("c26 dec {ty} {}", hex(&pre)), "err eof", || dec_show::<T>(&pre));
        }
        // 4. corruptions: one byte replaced (biased to length prefixes / tags at the front)
        if !bytes.is_empty() {
            for _ in 0..3 {
                let mut m = bytes.clone();
                let i = if rng.chance(1, 2) { 0 } else { rng.below(m.len() as u64) as usize };
                m[i] = match rng.below(4) { 0 => 0, 1 => 0xff, 2 => m[i] ^ (1 << rng.below(8)), _ => rng.next() as u8 };
                out.count("corruption");
                out.case(&format!("c26 dec {ty} {}", hex(&m)), "~^(ok|err) ", || dec_show::<T>(&m));
            }
        }
    }
    // 5. unstructured bytes
    for _ in 0..n {
        let len = rng.below(20) as usize;
        let mut m = rng.bytes(len);
        if !m.is_empty() && rng.chance(1, 2) { m[0] = *rng.pick(&[0u8, 1, 2, 3, 4, 0x80, 0xff, 0x10, 0x20, 0x40]); }
        out.count("random-bytes");
        out.case(&format!("c26 dec {ty} {}", hex(&m)), "~^(ok|err) ", || dec_show::<T>(&m));
    }
}

fn doc_len(v: u64) -> usize {
    // documented vint64 length: 7 payload bits per byte for 1..8 bytes, 9 bytes otherwise
    let bits = 64 - v.leading_zeros() as usize;
    if bits > 56 { 9 } else { core::cmp::max(1, (bits + 6) / 7) }
}

pub fn run(rng: &mut Rng, out: &mut Out, n: usize) {
    // vint64 length at every boundary 2^(7k) ± 2 and 2^k ± 1
    let mut vals: Vec<u64> = vec![0, 1, 2, u64::MAX, u64::MAX - 1];
    for k in 0..64u32 {
        for d in [-2i64, -1, 0, 1, 2] {
            vals.push((1u64 << k).wrapping_add(d as u64));
        }
    }
    for _ in 0..n { vals.push(rng.biased(64) as u64); }
    for v in vals {
        out.count(&format!("len:{}", doc_len(v)));
        out.case(&format!("c26 len {v}"), &format!("{}", doc_len(v)), || format!("{}", (v as usize).get_size_hint()));
        let enc = (v as usize).to_bytes();
        out.case(&format!("c26 enc usize {v}"), "-", || hex(&(v as usize).to_bytes()));
        out.case(&format!("c26 dec usize {}", hex(&enc)), &format!("ok {v} {}", doc_len(v)), || dec_show::<usize>(&enc));
    }
    for b in 0..=255u32 {
        out.case(&format!("c26 tz8 {b}"), "-", || format!("{}", (b as u8).trailing_zeros()));
    }
    // every first byte × short tails through read_usize (all length classes incl. the 9-byte form)
    for b in 0..=255u8 {
        for tail in [0usize, 1, 7, 8, 9] {
            let mut m = vec![b];
            m.extend(rng.bytes(tail));
            out.case(&format!("c26 dec usize {}", hex(&m)), "~^(ok|err) ", || dec_show::<usize>(&m));
        }
    }
    // UTF-8 validation: valid strings, mutated strings, random bytes, boundary sequences
    let seeds: Vec<Vec<u8>> = vec![
        vec![0xc0, 0x80], vec![0xc1, 0xbf], vec![0xc2, 0x80], vec![0xdf, 0xbf], vec![0xe0, 0x9f, 0xbf],
        vec![0xe0, 0xa0, 0x80], vec![0xed, 0x9f, 0xbf], vec![0xed, 0xa0, 0x80], vec![0xef, 0xbf, 0xbf],
        vec![0xf0, 0x8f, 0xbf, 0xbf], vec![0xf0, 0x90, 0x80, 0x80], vec![0xf4, 0x8f, 0xbf, 0xbf],
        vec![0xf4, 0x90, 0x80, 0x80], vec![0xf5, 0x80, 0x80, 0x80], vec![0x80], vec![0xbf], vec![0xff],
        vec![0xe1, 0x80], vec![0xf1, 0x80, 0x80], vec![0xc2], vec![0x7f], vec![0xee, 0x80, 0x80],
    ];
    for s in &seeds {
        out.case(&format!("c26 utf8 {}", hex(s)), "-", || if String::from_utf8(s.clone()).is_ok() { "t".into() } else { "f".into() });
    }
    for _ in 0..(4 * n) {
        let mut s = match rng.below(3) {
            0 => String::gen(rng, 0).into_bytes(),
            1 => { let l = rng.below(6) as usize; rng.bytes(l) },
            _ => { let mut s = rng.pick(&seeds).clone(); s.extend(String::gen(rng, 2).into_bytes()); s },
        };
        if !s.is_empty() && rng.chance(1, 2) {
            let i = rng.below(s.len() as u64) as usize;
            s[i] = match rng.below(3) { 0 => s[i] ^ (1 << rng.below(8)), 1 => *rng.pick(&[0x80u8, 0xbf, 0xc0, 0xc2, 0xe0, 0xed, 0xf0, 0xf4, 0xf5]), _ => rng.next() as u8 };
        }
        let valid = String::from_utf8(s.clone()).is_ok();
        out.count(if valid { "utf8:valid" } else { "utf8:invalid" });
        out.case(&format!("c26 utf8 {}", hex(&s)), "-", || if String::from_utf8(s.clone()).is_ok() { "t".into() } else { "f".into() });
        // and through the String decoder
        let mut enc = s.len().to_bytes();
        enc.extend(&s);
        let expect = if valid { format!("ok x{} {}", if s.is_empty() { String::new() } else { hex(&s) }, enc.len()) } else { "err invalid".to_string() };
        out.case(&format!("c26 dec str {}", hex(&enc)), &expect, || dec_show::<String>(&enc));
    }
    // oversized element counts: a few bytes claiming up to 2^64-1 elements (no abort allowed)
    for k in [20u32, 31, 32, 40, 47, 48, 56, 60, 61, 62, 63] {
        for d in [0u64, 1] {
            let cnt = ((1u64 << k) - d) as usize;
            let mut m = cnt.to_bytes();
            m.extend(rng.bytes(5));
            out.count("huge-count");
            out.case(&format!("c26 dec Vu64 {}", hex(&m)), "err eof", || dec_show::<Vec<u64>>(&m));
            out.case(&format!("c26 dec Vu8 {}", hex(&m)), "err eof", || dec_show::<Vec<u8>>(&m));
            out.case(&format!("c26 dec VP(u128,u128) {}", hex(&m)), "err eof", || dec_show::<Vec<(u128, u128)>>(&m));
            out.case(&format!("c26 dec str {}", hex(&m)), "err eof", || dec_show::<String>(&m));
            out.case(&format!("c26 dec Bu32 {}", hex(&m)), "err eof", || dec_show::<BTreeSet<u32>>(&m));
        }
    }
    // all-ones and near-usize::MAX element counts / byte lengths in front of every length-prefixed
    // decoder, at the top level and behind a prefix that moves the reader position
    for j in 0..=17u64 {
        let cnt = (u64::MAX - j) as usize;
        let mut m = cnt.to_bytes();
        m.extend(rng.bytes(6));
        out.count("huge-count");
        out.case(&format!("c26 dec str {}", hex(&m)), "err eof", || dec_show::<String>(&m));
        out.case(&format!("c26 dec Vu8 {}", hex(&m)), "err eof", || dec_show::<Vec<u8>>(&m));
        out.case(&format!("c26 dec Vu64 {}", hex(&m)), "err eof", || dec_show::<Vec<u64>>(&m));
        out.case(&format!("c26 dec Mu16:u8 {}", hex(&m)), "err eof", || dec_show::<BTreeMap<u16, u8>>(&m));
        out.case(&format!("c26 dec Bu32 {}", hex(&m)), "err eof", || dec_show::<BTreeSet<u32>>(&m));
        let mut nested = vec![7u8, 9, 0];
        nested.extend(&m);
        out.case(&format!("c26 dec P(u8,u16,str) {}", hex(&nested)), "err eof", || dec_show::<(u8, u16, String)>(&nested));
        out.case(&format!("c26 dec P(u8,u16,Vu8) {}", hex(&nested)), "err eof", || dec_show::<(u8, u16, Vec<u8>)>(&nested));
    }
    // reader primitives called with a length taken from corrupted input: read_slice / read_vec /
    // read_string / check_eor at several positions, lengths around the remaining length and around
    // every power of two up to usize::MAX (no panic, error exactly when len > remaining)
    let hx = |b: &[u8]| if b.is_empty() { String::new() } else { hex(b) };
    for total in [0usize, 1, 5, 12] {
        let src: Vec<u8> = (0..total).map(|i| b'a' + (i as u8 % 26)).collect();
        for pos in [0usize, 1, 4, 12] {
            if pos > total { continue; }
            let rem = total - pos;
            let mut lens: Vec<u64> = vec![0, 1, rem as u64, rem as u64 + 1, (rem as u64).saturating_sub(1)];
            for k in [8u32, 16, 31, 32, 33, 62, 63] { for d in [-1i64, 0, 1] { lens.push((1u64 << k).wrapping_add(d as u64)); } }
            for j in 0..=(total as u64 + 2) { lens.push(u64::MAX - j); }
            for len in lens {
                let len = len as usize;
                for op in ["slice", "vec", "string", "eor"] {
                    out.count(&format!("prim:{op}"));
                    let expect = if len > rem { "err eof".to_string() }
                        else if op == "eor" { "ok".to_string() }
                        else { format!("ok x{} {}", hx(&src[pos..pos + len]), rem - len) };
                    let src2 = src.clone();
                    out.case(&format!("c26 prim {op} {pos} {len} {}", if src.is_empty() { "-".to_string() } else { hex(&src) }), &expect, move || {
                        let mut r = SliceReader::new(&src2);
                        if winter_utils::ByteReader::read_slice(&mut r, pos).is_err() { return "bad-pos".into(); }
                        let left = |r: &mut SliceReader| { let mut l = 0usize; while winter_utils::ByteReader::read_u8(r).is_ok() { l += 1; } l };
                        match op {
                            "eor" => match winter_utils::ByteReader::check_eor(&r, len) { Ok(()) => "ok".into(), Err(e) => format!("err {}", err_str(&e)) },
                            "slice" => match winter_utils::ByteReader::read_slice(&mut r, len).map(|s| s.to_vec()) {
                                Ok(v) => format!("ok x{} {}", hx(&v), left(&mut r)), Err(e) => format!("err {}", err_str(&e)) },
                            "vec" => match winter_utils::ByteReader::read_vec(&mut r, len) {
                                Ok(v) => format!("ok x{} {}", hx(&v), left(&mut r)), Err(e) => format!("err {}", err_str(&e)) },
                            _ => match winter_utils::ByteReader::read_string(&mut r, len) {
                                Ok(v) => format!("ok x{} {}", hx(v.as_bytes()), left(&mut r)), Err(e) => format!("err {}", err_str(&e)) },
                        }
                    });
                }
            }
        }
    }
    let k = core::cmp::max(1, n / 8);
    run_type::<u8>(rng, out, k);
    run_type::<u16>(rng, out, k);
    run_type::<u32>(rng, out, k);
    run_type::<u64>(rng, out, k);
    run_type::<u128>(rng, out, k);
    run_type::<usize>(rng, out, k);
    run_type::<()>(rng, out, 1);
    run_type::<String>(rng, out, k);
    run_type::<Option<u32>>(rng, out, k);
    run_type::<Vec<u8>>(rng, out, k);
    run_type::<Vec<u64>>(rng, out, k);
    run_type::<[u16; 3]>(rng, out, k);
    run_type::<[Option<u8>; 2]>(rng, out, k);
    run_type::<(u8,)>(rng, out, k);
    run_type::<(u8, u16)>(rng, out, k);
    run_type::<(u8, u16, u32)>(rng, out, k);
    run_type::<(u8, u16, u32, u64)>(rng, out, k);
    run_type::<(u8, u16, u32, u64, u128)>(rng, out, k);
    run_type::<(u8, u16, u32, u64, u128, usize)>(rng, out, k);
    run_type::<BTreeSet<u32>>(rng, out, k);
    run_type::<BTreeMap<u16, u8>>(rng, out, k);
    run_type::<Vec<Option<Vec<u16>>>>(rng, out, k);
    run_type::<Option<(usize, String)>>(rng, out, k);
    run_type::<Vec<(u8, Vec<u8>)>>(rng, out, k);
    run_type::<BTreeMap<u64, Vec<String>>>(rng, out, k);
    run_type::<Vec<usize>>(rng, out, k);
}
