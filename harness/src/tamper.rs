//! Streams on serialized proofs of generated AIRs:
//!  c05 – decoding + verifying untrusted bytes never panics / aborts / hangs,
//!  c04 – tampered bytes are rejected unless the parsed contents are identical,
//!  c03 – data revealed after the challenges (trace / constraint / FRI layer rows, FRI remainder)
//!        cannot be substituted,
//!  c06 – proof bytes do not depend on threading / build features (compared across builds by the
//!        check driver).
use std::marker::PhantomData;
use std::sync::Arc;

use winter_air::proof::Proof;
use winter_crypto::{hashers::{Blake3_256, Rp64_256, RpJive64_256, Sha3_256}, DefaultRandomCoin, ElementHasher, MerkleTree};
use winter_math::fields::{f128, f64};
use winter_prover::Prover;
use winter_utils::{ByteReader, Deserializable, Serializable, SliceReader};
use winter_verifier::{verify, AcceptableOptions};

use crate::c10::{with_timeout, P128, P64};
use crate::genair::{build_trace, gen_instance, GenAir, GenProver, GenTrace, Instance, PubIn, BF};
use crate::out::Out;
use crate::protocol::{gen_opts, install_panic_hook, Opts, LAST_PANIC};
use crate::rng::{hex, Rng};

fn c64(v: u128) -> f64::BaseElement { f64::BaseElement::new((v % P64) as u64) }
fn c128(v: u128) -> f128::BaseElement { f128::BaseElement::new(v % P128) }

pub struct Honest<B: BF> { pub inst: Instance, pub opts: Opts, pub pub_in: PubIn<B>, pub proof: Proof, pub bytes: Vec<u8> }

fn make_honest<B: BF, H: ElementHasher<BaseField = B> + Sync>(rng: &mut Rng, p: u128, conv: fn(u128) -> B, field: &str, max_log: u64, meta: Vec<u8>) -> Option<Honest<B>> {
    let inst = gen_instance(rng, p, max_log, true);
    let opts = gen_opts(rng, &inst, field, false);
    let claimed: Vec<Vec<u128>> = inst.desc.asserts.iter().map(|a| a.values.clone()).collect();
    let pub_in = PubIn { desc: Arc::new(inst.desc.clone()), claimed, conv };
    let cols = build_trace(&inst, p);
    let columns: Vec<Vec<B>> = cols.iter().map(|c| c.iter().map(|v| conv(*v)).collect()).collect();
    let options = opts.build();
    let (pi, d) = (pub_in.clone(), inst.desc.clone());
    let res = std::panic::catch_unwind(std::panic::AssertUnwindSafe(move || {
        let mut trace = GenTrace::new(columns, d.aux_width, d.num_rands);
        if !meta.is_empty() {
            trace.info = winter_air::TraceInfo::new_multi_segment(d.width, d.aux_width, d.num_rands, trace.info.length(), meta);
        }
        let prover = GenProver::<B, H> { options, pub_in: pi, aux_corruption: None, _h: PhantomData };
        prover.prove(trace)
    }));
    match res {
        Ok(Ok(proof)) => { let bytes = proof.to_bytes(); Some(Honest { inst, opts, pub_in, proof, bytes }) },
        _ => None,
    }
}

/// decode + verify; result kinds: `ok`, `err-deser`, `err-verify`, `PANIC <msg>`, `hang`
fn decode_verify<B: BF, H: ElementHasher<BaseField = B> + Sync + 'static>(bytes: Vec<u8>, pub_in: PubIn<B>, opts: &Opts) -> (String, Option<Proof>)
where PubIn<B>: Send {
    let acceptable = AcceptableOptions::OptionSet(vec![opts.build()]);
    let parsed = std::panic::catch_unwind(|| Proof::from_bytes(&bytes));
    let proof = match parsed {
        Err(_) => return (format!("PANIC in from_bytes: {}", last_panic()), None),
        Ok(Err(_)) => return ("err-deser".into(), None),
        Ok(Ok(p)) => p,
    };
    let p2 = proof.clone();
    let v = std::panic::catch_unwind(std::panic::AssertUnwindSafe(move || verify::<GenAir<B>, H, DefaultRandomCoin<H>, MerkleTree<H>>(p2, pub_in, &acceptable)));
    match v {
        Err(_) => (format!("PANIC in verify: {}", last_panic()), Some(proof)),
        Ok(Err(_)) => ("err-verify".into(), Some(proof)),
        Ok(Ok(())) => ("ok".into(), Some(proof)),
    }
}

fn last_panic() -> String {
    LAST_PANIC.lock().map(|g| g.replace('\n', " ").chars().take(140).collect::<String>()).unwrap_or_default()
}

/// structure-aware and unstructured mutations of a proof encoding
fn mutate(rng: &mut Rng, bytes: &[u8]) -> (Vec<u8>, &'static str) {
    let mut m = bytes.to_vec();
    let n = m.len();
    match rng.below(12) {
        0 => { let c = rng.below(n as u64) as usize; m.truncate(c); (m, "truncate") },
        1 => { let k = 1 + rng.below(8) as usize; m.extend(rng.bytes(k)); (m, "append") },
        2 => { let i = rng.below(n as u64) as usize; m[i] ^= 1 << rng.below(8); (m, "bitflip") },
        3 => { let i = rng.below(n as u64) as usize; m[i] = rng.next() as u8; (m, "byte") },
        4 => { let i = rng.below(n.min(40) as u64) as usize; m[i] = *rng.pick(&[0u8, 1, 2, 3, 0x7f, 0x80, 0xfe, 0xff, 64, 63]); (m, "header-value") },
        5 => { let i = rng.below(n.min(40) as u64) as usize; m[i] = m[i].wrapping_add(1); (m, "header-inc") },
        6 => { let i = rng.below(n as u64) as usize; m.insert(i, rng.next() as u8); (m, "insert") },
        7 => { let i = rng.below(n as u64) as usize; m.remove(i); (m, "delete") },
        8 => {
            // overwrite a plausible length / count field (2 or 4 bytes) with an extreme value
            let i = rng.below((n - 4) as u64) as usize;
            let v: [u8; 4] = *rng.pick(&[[0, 0, 0, 0], [0xff, 0xff, 0xff, 0xff], [0xff, 0xff, 0, 0], [0, 0, 0, 0x80], [1, 0, 0, 0]]);
            m[i..i + 4].copy_from_slice(&v);
            (m, "length-field")
        },
        9 => {
            // vint64 9-byte form claiming a huge count
            let i = rng.below((n - 9) as u64) as usize;
            m[i] = 0;
            for k in 1..9 { m[i + k] = 0xff; }
            (m, "vint-huge")
        },
        10 => { let a = rng.below(n as u64) as usize; let b = rng.below(n as u64) as usize; m.swap(a, b); (m, "swap") },
        _ => { let l = rng.below(64) as usize; (rng.bytes(l), "random") },
    }
}

macro_rules! with_cfg {
    ($rng:expr, $body:ident, $($args:expr),*) => {
        match $rng.below(5) {
            4 => $body::<f64::BaseElement, RpJive64_256>($($args,)* P64, c64, "f64", "rpj"),
            0 => $body::<f64::BaseElement, Blake3_256<f64::BaseElement>>($($args,)* P64, c64, "f64", "b3"),
            1 => $body::<f64::BaseElement, Rp64_256>($($args,)* P64, c64, "f64", "rp64"),
            2 => $body::<f128::BaseElement, Sha3_256<f128::BaseElement>>($($args,)* P128, c128, "f128", "sha"),
            _ => $body::<f128::BaseElement, Blake3_256<f128::BaseElement>>($($args,)* P128, c128, "f128", "b3"),
        }
    };
}

// ---------------------------------------------------------------------------------------------
// C05 / C04
// ---------------------------------------------------------------------------------------------
fn c05_one<B: BF + Send + Sync, H: ElementHasher<BaseField = B> + Sync + 'static>(rng: &mut Rng, out: &mut Out, per: usize, c04: bool, p: u128, conv: fn(u128) -> B, field: &str, hname: &str) {
    let ml = 1 + rng.below(9) as usize;
    let meta = if rng.chance(1, 3) { rng.bytes(ml) } else { vec![] };
    let Some(h) = make_honest::<B, H>(rng, p, conv, field, 5, meta) else { out.count("honest-proof-failed"); return; };
    let tag = if c04 { "c04" } else { "c05" };
    // the honest proof itself
    let (v0, _) = decode_verify::<B, H>(h.bytes.clone(), h.pub_in.clone(), &h.opts);
    out.case(&format!("{tag} {field} {hname} honest {}", h.bytes.len()), "ok", || v0.clone());
    for _ in 0..per {
        let (m, kind) = mutate(rng, &h.bytes);
        out.count(&format!("mutation:{kind}"));
        let (pi, o) = (h.pub_in.clone(), h.opts.clone());
        let orig = h.proof.clone();
        let req = format!("{tag} {field} {hname} {kind} {}", hex(&m));
        if !c04 {
            out.case(&req, "~^(ok|err-deser|err-verify)$", move || with_timeout(move || decode_verify::<B, H>(m, pi, &o).0));
        } else {
            // accepted => parsed contents must equal the original proof's
            out.case(&req, "~^(rejected|accepted-identical)$", move || {
                let (v, parsed) = decode_verify::<B, H>(m, pi, &o);
                match (v.as_str(), parsed) {
                    ("ok", Some(pr)) => if pr == orig { "accepted-identical".into() } else { format!("ACCEPTED-DIFFERENT {}", diff_fields(&pr, &orig)) },
                    ("ok", None) => "accepted-identical".into(),
                    (s, _) if s.starts_with("PANIC") => "rejected".into(),
                    _ => "rejected".into(),
                }
            });
        }
    }
    if !c04 {
        // header sweep: every byte of the serialized context (trace layout, length exponent, metadata
        // length, modulus, the ten option bytes, constraint count) takes every value 0..=255
        let ctx_len = h.proof.context.to_bytes().len();
        for pos in 0..ctx_len.min(48) {
            for v in 0..=255u8 {
                if v == h.bytes[pos] { continue; }
                // all values for the first eight bytes and the option bytes; boundary values elsewhere
                let opt_start = ctx_len.saturating_sub(12);
                if pos >= 8 && pos < opt_start && !(v < 3 || v > 252 || v == 0x7f || v == 0x80) { continue; }
                let mut m = h.bytes.clone();
                m[pos] = v;
                let (pi, o) = (h.pub_in.clone(), h.opts.clone());
                out.count("mutation:header-sweep");
                out.case(&format!("{tag} {field} {hname} header:{pos}={v} {}", hex(&m)), "~^(ok|err-deser|err-verify)$", move || with_timeout(move || decode_verify::<B, H>(m, pi, &o).0));
            }
        }
    }
    if !c04 {
        // component-header sweep: the length prefix and the first bytes of every length-prefixed
        // component (commitments, query values / openings, both halves of the out-of-domain frame,
        // FRI layers, remainder) and the bytes between components take small, boundary and random
        // values — these are the counts, widths and depths the component parsers trust
        let mut vals: Vec<u8> = (0..=17u8).collect();
        vals.extend([0x1f, 0x20, 0x3f, 0x40, 0x41, 0x7f, 0x80, 0x81, 0xfe, 0xff]);
        let vecs = proof_vectors(&h);
        let mut positions: Vec<usize> = Vec::new();
        for v in &vecs {
            for p in v.prefix_pos.saturating_sub(1)..(v.data_pos + 3).min(v.data_pos + v.len) { positions.push(p); }
        }
        let n = h.bytes.len();
        for p in n.saturating_sub(10)..n { positions.push(p); }
        positions.sort(); positions.dedup();
        for pos in positions {
            for &v in &vals {
                if pos >= h.bytes.len() || v == h.bytes[pos] { continue; }
                let mut m = h.bytes.clone();
                m[pos] = v;
                let (pi, o) = (h.pub_in.clone(), h.opts.clone());
                out.count("mutation:component-header-sweep");
                out.case(&format!("{tag} {field} {hname} comp:{pos}={v} {}", hex(&m)), "~^(ok|err-deser|err-verify)$", move || with_timeout(move || decode_verify::<B, H>(m, pi, &o).0));
            }
        }
    }
    if c04 {
        // field-level edits: re-encode the proof with one component changed
        let mut variants: Vec<(&'static str, Proof)> = Vec::new();
        let mut p1 = h.proof.clone(); p1.pow_nonce = p1.pow_nonce.wrapping_add(1); variants.push(("nonce", p1));
        let mut p2 = h.proof.clone(); p2.num_unique_queries = p2.num_unique_queries.wrapping_add(1); variants.push(("unique-queries", p2));
        // nonces that are congruent to the honest one modulo the field modulus / modulo 2^32 / that
        // differ in the top bit: the whole 64-bit value must be bound by the transcript
        let mut p3 = h.proof.clone(); p3.pow_nonce = p3.pow_nonce.wrapping_add(p as u64); variants.push(("nonce+p", p3));
        let mut p4 = h.proof.clone(); p4.pow_nonce = p4.pow_nonce.wrapping_add(1 << 32); variants.push(("nonce+2^32", p4));
        let mut p5 = h.proof.clone(); p5.pow_nonce ^= 1 << 63; variants.push(("nonce^2^63", p5));
        let mut p6 = h.proof.clone(); p6.pow_nonce = p6.pow_nonce.wrapping_add(0xffff_ffff_0000_0001); variants.push(("nonce+p64", p6));
        for (name, pr) in variants {
            let b = pr.to_bytes();
            let (pi, o) = (h.pub_in.clone(), h.opts.clone());
            let orig = h.proof.clone();
            out.case(&format!("c04 {field} {hname} field:{name} {}", hex(&b)), "~^(rejected|accepted-identical)$", move || {
                let (v, parsed) = decode_verify::<B, H>(b, pi, &o);
                if v == "ok" { if parsed.as_ref() == Some(&orig) { "accepted-identical".into() } else { "ACCEPTED-DIFFERENT".into() } } else { "rejected".into() }
            });
        }
        // an opening proof carrying one more (unused) node than the tree path needs: re-encode the
        // batch Merkle proof of the first trace query / the constraint queries with a duplicated
        // digest appended to its last node vector
        for which in ["trace", "constraint"] {
            let q = if which == "trace" { h.proof.trace_queries[0].clone() } else { h.proof.constraint_queries.clone() };
            let qb = q.to_bytes();
            let mut r = SliceReader::new(&qb);
            let (Ok(values), Ok(opening)) = (Vec::<u8>::read_from(&mut r), Vec::<u8>::read_from(&mut r)) else { continue };
            let mut r = SliceReader::new(&opening);
            let (Ok(depth), Ok(nvec)) = (r.read_u8(), r.read_usize()) else { continue };
            let mut vecs: Vec<Vec<u8>> = Vec::new();
            let mut okp = true;
            for _ in 0..nvec {
                let Ok(l) = r.read_usize() else { okp = false; break };
                let Ok(b) = r.read_vec(32 * l) else { okp = false; break };
                vecs.push(b);
            }
            if !okp || r.has_more_bytes() || vecs.is_empty() { continue; }
            for (name, extra_vec) in [("extra-node", false), ("extra-node-vector", true)] {
                let mut v2 = vecs.clone();
                let donor: Vec<u8> = v2.iter().find(|v| v.len() >= 32).map(|v| v[..32].to_vec()).unwrap_or(vec![0u8; 32]);
                if extra_vec { v2.push(donor.clone()); } else { let l = v2.len(); v2[l - 1].extend(&donor); }
                let mut ob = vec![depth];
                ob.extend(v2.len().to_bytes());
                for v in &v2 { ob.extend((v.len() / 32).to_bytes()); ob.extend(v); }
                let mut nq = values.to_bytes();
                nq.extend(ob.to_bytes());
                let Ok(q2) = winter_air::proof::Queries::read_from_bytes(&nq) else { continue };
                let mut pr = h.proof.clone();
                if which == "trace" { pr.trace_queries[0] = q2; } else { pr.constraint_queries = q2; }
                let b = pr.to_bytes();
                let (pi, o) = (h.pub_in.clone(), h.opts.clone());
                let orig = h.proof.clone();
                out.count("mutation:opening-extra");
                out.case(&format!("c04 {field} {hname} opening:{which}:{name} {}", hex(&b)), "~^(rejected|accepted-identical)$", move || {
                    let (v, parsed) = decode_verify::<B, H>(b, pi, &o);
                    if v == "ok" { if parsed.as_ref() == Some(&orig) { "accepted-identical".into() } else { "ACCEPTED-DIFFERENT unused-opening-node".into() } } else { "rejected".into() }
                });
            }
        }
        // transcript binding of the out-of-domain frame: every base-field coefficient of every
        // revealed out-of-domain evaluation must influence what the verifier feeds into the public
        // coin (the C04 mechanism "every parsed value feeds the transcript or a commitment check").
        // The verifier's coin calls are logged (reseed digests included); a changed coefficient
        // that leaves the log identical is not bound, even if this particular proof is rejected
        // later for another reason (a compensating edit elsewhere would then be accepted).
        {
            let log_of = |bytes: &[u8]| -> Option<Vec<String>> {
                let proof = Proof::from_bytes(bytes).ok()?;
                let acceptable = AcceptableOptions::OptionSet(vec![h.opts.build()]);
                let pi = h.pub_in.clone();
                let r = std::panic::catch_unwind(std::panic::AssertUnwindSafe(move || verify::<GenAir<B>, H, LogCoin<B, H>, MerkleTree<H>>(proof, pi, &acceptable)));
                let mut l = COIN_LOG.with(|l| l.borrow().clone());
                l.push(match r { Ok(Ok(())) => "ACCEPT".into(), Ok(Err(e)) => format!("REJECT:{}", format!("{e}").chars().take(40).collect::<String>()), Err(_) => "PANIC".into() });
                Some(l)
            };
            let honest_log = log_of(&h.bytes);
            let eb = B::ELEMENT_BYTES;
            for v in proof_vectors(&h).iter().filter(|v| v.name.starts_with("ood-")) {
                for ci in 0..v.len / eb {
                    let at = v.data_pos + ci * eb;
                    let mut b = h.bytes.clone();
                    b[at] = if b[at] == 0xff { 0xfe } else { b[at] + 1 };
                    let name = v.name;
                    out.count(&format!("binding:{name}"));
                    let (tl, hl) = (log_of(&b), honest_log.clone());
                    out.case(&format!("c04 {field} {hname} binding:{name}:{ci} {}", hex(&b)), "~^(bound|rejected-early)$", move || {
                        match (tl, hl) {
                            (None, _) => "rejected-early".into(),
                            (Some(t), Some(hh)) => {
                                // compare the coin interaction up to (not including) the final verdict
                                if t[..t.len() - 1] == hh[..hh.len() - 1] { format!("UNBOUND transcript identical ({})", t.last().unwrap()) } else { "bound".into() }
                            },
                            (Some(_), None) => "bound".into(),
                        }
                    });
                }
            }
        }
        // length-prefix surgery: every length-prefixed byte vector inside the proof grows or shrinks
        // by k bytes with its prefix re-encoded (so that decoding stays aligned): nothing the parsers
        // accept may be ignored by the verifier
        {
            let vecs = proof_vectors(&h);
            for (vi, v) in vecs.iter().enumerate() {
                for &k in &[1usize, 8, 16, 32] {
                    for grow in [true, false] {
                        if !grow && v.len < k { continue; }
                        // thin out: every vector with k = 1 and 32, the rest sampled
                        if (k == 8 || k == 16) && !rng.chance(1, 3) { continue; }
                        let mut b = h.bytes[..v.prefix_pos].to_vec();
                        let new_len = if grow { v.len + k } else { v.len - k };
                        match v.width { 0 => b.extend(new_len.to_bytes()), w => b.extend(&(new_len as u64).to_le_bytes()[..w]) }
                        let data = &h.bytes[v.data_pos..v.data_pos + v.len];
                        if grow {
                            b.extend(data);
                            // duplicate the trailing bytes (stays a valid digest / field element encoding)
                            let src = if v.len >= k { data[v.len - k..].to_vec() } else { vec![0u8; k] };
                            b.extend(src);
                        } else {
                            b.extend(&data[..new_len]);
                        }
                        b.extend(&h.bytes[v.data_pos + v.len..]);
                        let (pi, o) = (h.pub_in.clone(), h.opts.clone());
                        let orig = h.proof.clone();
                        let name = v.name;
                        out.count(&format!("mutation:resize:{name}"));
                        out.case(&format!("c04 {field} {hname} resize:{name}#{vi}:{}{k} {}", if grow { '+' } else { '-' }, hex(&b)), "~^(rejected|accepted-identical)$", move || {
                            let (v, parsed) = decode_verify::<B, H>(b, pi, &o);
                            if v == "ok" { if parsed.as_ref() == Some(&orig) { "accepted-identical".into() } else { format!("ACCEPTED-DIFFERENT resized {name}") } } else { "rejected".into() }
                        });
                    }
                }
            }
        }
        // context values that to_elements() reduces to 32 bits: the same seed would result from
        // num_constraints + k*2^32, so the decoder has to refuse them (re-encoded size prefix)
        {
            let ctx_bytes = h.proof.context.to_bytes();
            let nc = h.proof.context.num_constraints();
            let old_nc = nc.to_bytes();
            for (name, nc2) in [("nc+2^32", nc + (1usize << 32)), ("nc+2^33", nc + (1usize << 33)), ("nc+2^63", nc + (1usize << 63)), ("nc=0", 0usize), ("nc=2^32", 1usize << 32)] {
                let mut b = ctx_bytes[..ctx_bytes.len() - old_nc.len()].to_vec();
                b.extend(nc2.to_bytes());
                b.extend(&h.bytes[ctx_bytes.len()..]);
                let (pi, o) = (h.pub_in.clone(), h.opts.clone());
                let orig = h.proof.clone();
                out.count("mutation:ctx-32bit");
                out.case(&format!("c04 {field} {hname} ctx:{name} {}", hex(&b)), "~^(rejected|accepted-identical)$", move || {
                    let (v, parsed) = decode_verify::<B, H>(b, pi, &o);
                    if v == "ok" { if parsed.as_ref() == Some(&orig) { "accepted-identical".into() } else { "ACCEPTED-DIFFERENT num-constraints".into() } } else { "rejected".into() }
                });
            }
            // trace length exponent raised by 32 (byte 3 of the trace info encoding)
            let mut b = h.bytes.clone();
            b[3] = b[3].wrapping_add(32);
            let (pi, o) = (h.pub_in.clone(), h.opts.clone());
            let orig = h.proof.clone();
            out.case(&format!("c04 {field} {hname} ctx:len*2^32 {}", hex(&b)), "~^(rejected|accepted-identical)$", move || {
                let (v, parsed) = decode_verify::<B, H>(b, pi, &o);
                if v == "ok" { if parsed.as_ref() == Some(&orig) { "accepted-identical".into() } else { "ACCEPTED-DIFFERENT trace-length".into() } } else { "rejected".into() }
            });
        }
        // trace metadata extended by a zero byte inside the last chunk (class of the recorded C24 finding)
        if !h.proof.context.trace_info().meta().is_empty() && h.proof.context.trace_info().meta().len() % 7 != 0 {
            let ti = h.proof.context.trace_info();
            let mut meta = ti.meta().to_vec();
            meta.push(0);
            let ti2 = winter_air::TraceInfo::new_multi_segment(ti.main_trace_width(), ti.aux_segment_width(), ti.get_num_aux_segment_rand_elements(), ti.length(), meta);
            // rebuild the context bytes: trace info is the first component of the proof encoding
            let old_ti = ti.to_bytes();
            let mut b = ti2.to_bytes();
            b.extend(&h.bytes[old_ti.len()..]);
            let (pi, o) = (h.pub_in.clone(), h.opts.clone());
            let orig = h.proof.clone();
            out.case(&format!("c04 {field} {hname} metazero {}", hex(&b)), "~^(rejected|accepted-identical)$", move || {
                let (v, parsed) = decode_verify::<B, H>(b, pi, &o);
                if v == "ok" { if parsed.as_ref() == Some(&orig) { "accepted-identical".into() } else { "ACCEPTED-DIFFERENT trace-metadata".into() } } else { "rejected".into() }
            });
        }
    }
}

struct PVec { name: &'static str, prefix_pos: usize, width: usize, data_pos: usize, len: usize }

/// positions of all length-prefixed byte vectors in the proof encoding (width 0 = vint64 prefix)
fn proof_vectors<B: BF>(h: &Honest<B>) -> Vec<PVec> {
    let bytes = &h.bytes;
    let mut out = Vec::new();
    let mut pos = h.proof.context.to_bytes().len() + 1;
    let fixed = |out: &mut Vec<PVec>, pos: &mut usize, name: &'static str, w: usize| {
        let mut l = 0usize;
        for i in 0..w { l |= (bytes[*pos + i] as usize) << (8 * i); }
        out.push(PVec { name, prefix_pos: *pos, width: w, data_pos: *pos + w, len: l });
        *pos += w + l;
    };
    let vint = |out: &mut Vec<PVec>, pos: &mut usize, name: &'static str| {
        let mut r = SliceReader::new(&bytes[*pos..]);
        let l = r.read_usize().unwrap();
        let pl = l.to_bytes().len();
        out.push(PVec { name, prefix_pos: *pos, width: 0, data_pos: *pos + pl, len: l });
        *pos += pl + l;
    };
    fixed(&mut out, &mut pos, "commitments", 2);
    for _ in 0..h.proof.trace_queries.len() {
        vint(&mut out, &mut pos, "trace-values");
        vint(&mut out, &mut pos, "trace-paths");
    }
    vint(&mut out, &mut pos, "constraint-values");
    vint(&mut out, &mut pos, "constraint-paths");
    fixed(&mut out, &mut pos, "ood-trace", 2);
    fixed(&mut out, &mut pos, "ood-constraints", 2);
    let nl = bytes[pos] as usize;
    pos += 1;
    for _ in 0..nl {
        fixed(&mut out, &mut pos, "fri-values", 4);
        fixed(&mut out, &mut pos, "fri-paths", 4);
    }
    fixed(&mut out, &mut pos, "fri-remainder", 2);
    assert_eq!(pos + 1 + 8, bytes.len(), "proof layout walk is out of step with the encoding");
    out
}

fn diff_fields(a: &Proof, b: &Proof) -> String {
    let mut v = vec![];
    if a.context != b.context { v.push("context"); }
    if a.num_unique_queries != b.num_unique_queries { v.push("num_unique_queries"); }
    if a.commitments != b.commitments { v.push("commitments"); }
    if a.trace_queries != b.trace_queries { v.push("trace_queries"); }
    if a.constraint_queries != b.constraint_queries { v.push("constraint_queries"); }
    if a.ood_frame != b.ood_frame { v.push("ood_frame"); }
    if a.fri_proof != b.fri_proof { v.push("fri_proof"); }
    if a.pow_nonce != b.pow_nonce { v.push("pow_nonce"); }
    v.join("+")
}

pub fn run_c05(rng: &mut Rng, out: &mut Out, n: usize) {
    install_panic_hook();
    for _ in 0..n { with_cfg!(rng, c05_one, rng, out, 40, false); }
    // unstructured inputs through every decoder entry point
    for _ in 0..(20 * n) {
        let l = rng.below(80) as usize;
        let b = rng.bytes(l);
        out.case(&format!("c05 raw proof {}", hex(&b)), "~^(ok|err)$", || match std::panic::catch_unwind(|| Proof::from_bytes(&b)) { Ok(Ok(_)) => "ok".into(), Ok(Err(_)) => "err".into(), Err(_) => format!("PANIC {}", last_panic()) });
        out.case(&format!("c05 raw bmp {}", hex(&b)), "~^(ok|err)$", || {
            let mut r = SliceReader::new(&b);
            match std::panic::catch_unwind(std::panic::AssertUnwindSafe(|| winter_crypto::BatchMerkleProof::<Blake3_256<f64::BaseElement>>::read_from(&mut r))) { Ok(Ok(_)) => "ok".into(), Ok(Err(_)) => "err".into(), Err(_) => format!("PANIC {}", last_panic()) }
        });
    }
}

pub fn run_c04(rng: &mut Rng, out: &mut Out, n: usize) {
    install_panic_hook();
    for _ in 0..n { with_cfg!(rng, c05_one, rng, out, 40, true); }
}

// ---------------------------------------------------------------------------------------------
// C03: substitute revealed data
// ---------------------------------------------------------------------------------------------
fn c03_one<B: BF + Send + Sync, H: ElementHasher<BaseField = B> + Sync + 'static>(rng: &mut Rng, out: &mut Out, p: u128, conv: fn(u128) -> B, field: &str, hname: &str) {
    let Some(h) = make_honest::<B, H>(rng, p, conv, field, 5, vec![]) else { out.count("honest-proof-failed"); return; };
    // byte ranges of the components inside the encoding, found by re-encoding the parts
    let ctx = h.proof.context.to_bytes().len();
    let comm = h.proof.commitments.to_bytes().len();
    let tq: usize = h.proof.trace_queries.iter().map(|q| q.to_bytes().len()).sum();
    let cq = h.proof.constraint_queries.to_bytes().len();
    let ood = h.proof.ood_frame.to_bytes().len();
    let fri = h.proof.fri_proof.to_bytes().len();
    let start_tq = ctx + 1 + comm;
    let ranges = [("trace-queries", start_tq, tq), ("constraint-queries", start_tq + tq, cq), ("ood-frame", start_tq + tq + cq, ood), ("fri-proof", start_tq + tq + cq + ood, fri)];
    for (name, start, len) in ranges {
        for _ in 0..6 {
            if len < 12 { continue; }
            // skip the first bytes of the component (length prefixes) so that mostly VALUES are hit
            let i = start + 9 + rng.below((len - 10) as u64) as usize;
            let mut m = h.bytes.clone();
            m[i] = m[i].wrapping_add(1 + rng.below(254) as u8);
            let (pi, o) = (h.pub_in.clone(), h.opts.clone());
            out.count(&format!("substitute:{name}"));
            out.case(&format!("c03 {field} {hname} {name} {i} {}", hex(&m)), "~^(err-deser|err-verify)$", move || decode_verify::<B, H>(m, pi, &o).0);
        }
    }
    // commitments themselves (revealed before the challenges; changing them must also be rejected)
    for _ in 0..3 {
        let i = ctx + 1 + 2 + rng.below((comm - 2) as u64) as usize;
        let mut m = h.bytes.clone();
        m[i] ^= 0x40;
        let (pi, o) = (h.pub_in.clone(), h.opts.clone());
        out.case(&format!("c03 {field} {hname} commitment {i} {}", hex(&m)), "~^(err-deser|err-verify)$", move || decode_verify::<B, H>(m, pi, &o).0);
    }
}

pub fn run_c03(rng: &mut Rng, out: &mut Out, n: usize) {
    install_panic_hook();
    for _ in 0..n { with_cfg!(rng, c03_one, rng, out); }
}

// ---------------------------------------------------------------------------------------------
// C06: digests of proof parts (compared across builds / thread counts by the check driver)
// ---------------------------------------------------------------------------------------------
fn fnv(bs: &[u8]) -> u64 { let mut h = 0xcbf29ce484222325u64; for b in bs { h ^= *b as u64; h = h.wrapping_mul(0x100000001b3); } h }

fn c06_one<B: BF + Send + Sync, H: ElementHasher<BaseField = B> + Sync + 'static>(rng: &mut Rng, out: &mut Out, max_log: u64, p: u128, conv: fn(u128) -> B, field: &str, hname: &str) {
    // exact trace length; every second instance has periodic columns with cycles up to the trace
    // length (fragment-relative step bookkeeping only shows with long cycles)
    let long = rng.chance(1, 2);
    let inst = crate::genair::gen_instance_shaped(rng, p, max_log, max_log, true, long);
    let mut opts = gen_opts(rng, &inst, field, true);
    opts.g = 0; // without grinding the nonce is fixed, so whole proofs must coincide
    let claimed: Vec<Vec<u128>> = inst.desc.asserts.iter().map(|a| a.values.clone()).collect();
    let pub_in = PubIn { desc: Arc::new(inst.desc.clone()), claimed, conv };
    let cols = build_trace(&inst, p);
    let columns: Vec<Vec<B>> = cols.iter().map(|c| c.iter().map(|v| conv(*v)).collect()).collect();
    let d = inst.desc.clone();
    let options = opts.build();
    out.count(&format!("n:{}", inst.n));
    let req = format!("c06 {field} {hname} n={} w={} opts={}", inst.n, d.width, opts.show());
    let trace = GenTrace::new(columns, d.aux_width, d.num_rands);
    let prover = GenProver::<B, H> { options, pub_in, aux_corruption: None, _h: PhantomData };
    let res = std::panic::catch_unwind(std::panic::AssertUnwindSafe(move || prover.prove(trace)));
    let (prefix, whole) = match res {
        Ok(Ok(pr)) => (
            format!("ctx={:016x} comm={:016x} ood={:016x}", fnv(&pr.context.to_bytes()), fnv(&pr.commitments.to_bytes()), fnv(&pr.ood_frame.to_bytes())),
            // compared across builds only when the same nonce was chosen (see tools/wfcheck.py)
            format!("all@nonce={}:{:016x}/{}", pr.pow_nonce, fnv(&pr.to_bytes()), pr.to_bytes().len()),
        ),
        Ok(Err(e)) => (format!("prover-error {e}"), "all@nonce=-:-".into()),
        Err(_) => ("prover-panic".into(), "all@nonce=-:-".into()),
    };
    out.case(&format!("{req} prefix"), "~^ctx=", move || prefix);
    out.case(&format!("{req} whole"), "~^all@nonce=[0-9]", move || whole);
}

pub fn run_c06(rng: &mut Rng, out: &mut Out, n: usize) {
    install_panic_hook();
    for i in 0..n {
        // sizes on both sides of the parallelism thresholds (1024 rows / elements, 8192 evaluations)
        let max_log = *[9u64, 11, 12, 5, 10, 13, 8].get(i % 7).unwrap();
        with_cfg!(rng, c06_one, rng, out, max_log);
    }
}

// ---------------------------------------------------------------------------------------------
// C03 (transcript): a public coin that logs what the real verifier does with it
// ---------------------------------------------------------------------------------------------
use std::cell::RefCell;
use winter_crypto::{Digest, RandomCoin, RandomCoinError};
use winter_math::FieldElement;

thread_local! { static COIN_LOG: RefCell<Vec<String>> = const { RefCell::new(Vec::new()) }; }

pub struct LogCoin<B: BF, H: ElementHasher<BaseField = B>> { inner: DefaultRandomCoin<H> }

impl<B: BF, H: ElementHasher<BaseField = B>> RandomCoin for LogCoin<B, H> {
    type BaseField = B;
    type Hasher = H;

    fn new(seed: &[B]) -> Self {
        COIN_LOG.with(|l| l.borrow_mut().clear());
        LogCoin { inner: DefaultRandomCoin::new(seed) }
    }
    fn reseed(&mut self, data: H::Digest) {
        COIN_LOG.with(|l| l.borrow_mut().push(format!("R:{}", hex(&data.as_bytes()))));
        self.inner.reseed(data)
    }
    fn check_leading_zeros(&self, value: u64) -> u32 {
        COIN_LOG.with(|l| l.borrow_mut().push("P".into()));
        self.inner.check_leading_zeros(value)
    }
    fn draw<E: FieldElement<BaseField = B>>(&mut self) -> Result<E, RandomCoinError> {
        COIN_LOG.with(|l| { let mut l = l.borrow_mut(); if l.last().map(|s| s.as_str()) != Some("D") { l.push("D".into()); } });
        self.inner.draw()
    }
    fn draw_integers(&mut self, num_values: usize, domain_size: usize, nonce: u64) -> Result<Vec<usize>, RandomCoinError> {
        COIN_LOG.with(|l| l.borrow_mut().push(format!("I:{num_values}:{domain_size}:n{nonce}")));
        self.inner.draw_integers(num_values, domain_size, nonce)
    }
}

fn c03t_one<B: BF + Send + Sync, H: ElementHasher<BaseField = B> + Sync + 'static>(rng: &mut Rng, out: &mut Out, p: u128, conv: fn(u128) -> B, field: &str, _hname: &str) {
    let Some(h) = make_honest::<B, H>(rng, p, conv, field, 6, vec![]) else { out.count("honest-proof-failed"); return; };
    let aux = h.inst.desc.aux_width > 0;
    let lde = h.inst.n * h.opts.b;
    let fri_opts = h.opts.build().to_fri_options();
    let nseg = if aux { 2 } else { 1 };
    let Ok((tc, cc, fc)) = h.proof.commitments.clone().parse::<H>(nseg, fri_opts.num_fri_layers(lde)) else { return; };
    // commitments in the order the verifier absorbs them; equal digests can occur (e.g. an all-zero
    // trace column and an all-zero composition column have the same root), so every label is handed
    // out once, in order
    let mut names: Vec<(String, String)> = Vec::new();
    for (i, t) in tc.iter().enumerate() { names.push((hex(&t.as_bytes()), format!("R:trace{i}"))); }
    names.push((hex(&cc.as_bytes()), "R:constraint".into()));
    for (i, t) in fc.iter().enumerate() { names.push((hex(&t.as_bytes()), format!("R:fri{i}"))); }
    let used = std::cell::RefCell::new(vec![false; names.len()]);
    let label = move |d: &str| -> String {
        let mut u = used.borrow_mut();
        for (k, (dig, name)) in names.iter().enumerate() {
            if !u[k] && dig == d { u[k] = true; return name.clone(); }
        }
        "R:other".into()
    };
    let acceptable = AcceptableOptions::OptionSet(vec![h.opts.build()]);
    let (proof, pi) = (h.proof.clone(), h.pub_in.clone());
    out.count(if aux { "transcript:aux" } else { "transcript:main-only" });
    out.case(&format!("c03t {} {lde} {} {} {} {}", aux as u8, h.opts.b, h.opts.f, h.opts.rd, h.opts.q), "-", move || {
        let r = verify::<GenAir<B>, H, LogCoin<B, H>, MerkleTree<H>>(proof, pi, &acceptable);
        let log = COIN_LOG.with(|l| l.borrow().clone());
        let mut s: Vec<String> = log.iter().map(|e| if let Some(d) = e.strip_prefix("R:") { label(d) }
            else if e.starts_with("I:") { e.rsplitn(2, ":n").last().unwrap_or(e).to_string() } else { e.clone() }).collect();
        if r.is_err() { s.push("REJECTED".into()); }
        s.join(" ")
    });
}

pub fn run_c03t(rng: &mut Rng, out: &mut Out, n: usize) {
    install_panic_hook();
    for _ in 0..n { with_cfg!(rng, c03t_one, rng, out); }
}
